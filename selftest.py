#!/usr/bin/env python3
"""Sensitivity self-test: every mutant (mutants/*.patch, seeded/*/patch.diff) is applied to a
scratch copy of /repo next to a scratch copy of the harness (outside /repo and /verif, removed
afterwards); the repo's own test suite must still pass with it, and the property's quick check
must report a violation.

  ./run.py selftest                 all mutants
  ./run.py selftest c04 revert      only names containing one of the words
  ./run.py selftest --seeded        only seeded/<id>/patch.diff

Writes evidence/selftest.json (kill matrix).  Exit 0 when every mutant that passes the
repo's tests is killed.
"""
import json
import os
import shutil
import subprocess
import sys
import tempfile
import time

ROOT = os.path.dirname(os.path.abspath(__file__))
REPO = "/repo"


def sh(cmd, cwd=None, env=None, inp=None, timeout=3600):
    p = subprocess.run(cmd, cwd=cwd, env=env, input=inp, stdout=subprocess.PIPE, stderr=subprocess.STDOUT, text=True, timeout=timeout)
    return p.returncode, p.stdout


def load_mutants(words, seeded_only):
    out = []
    idx_path = os.path.join(ROOT, "mutants", "index.json")
    if os.path.exists(idx_path) and not seeded_only:
        for e in json.load(open(idx_path)):
            out.append(dict(name=e["name"], property=e["property"], lanes=e["lanes"], what=e["what"], kind=e["kind"],
                            patch=os.path.join(ROOT, "mutants", e["name"] + ".patch")))
    sd = os.path.join(ROOT, "seeded")
    if os.path.isdir(sd):
        for d in sorted(os.listdir(sd)):
            mp = os.path.join(sd, d, "meta.json")
            pp = os.path.join(sd, d, "patch.diff")
            if os.path.exists(mp) and os.path.exists(pp):
                meta = json.load(open(mp))
                out.append(dict(name="seeded_" + d, property=meta["property"], lanes=meta.get("lanes", "dbg,rel"), what=meta.get("breaks", ""),
                                kind="seeded", patch=pp, tier=meta.get("tier", "quick")))
    if words:
        out = [m for m in out if any(w in m["name"] or w == m["property"] for w in words)]
    return out


def benign(argv):
    """False-alarm test: every benign patch (benign/*.patch) is applied to the scratch copy, the
    repo's tests must pass, and EVERY property's quick check (dbg+rel lanes) must exit 0."""
    words = [a for a in argv if not a.startswith("--")]
    index = json.load(open(os.path.join(ROOT, "benign", "index.json")))
    if words:
        index = [e for e in index if any(w in e["name"] for w in words)]
    props = [json.loads(l)["id"] for l in open(os.path.join(ROOT, "properties.jsonl"))]
    base = os.environ.get("TMPDIR", "/tmp")
    scratch = tempfile.mkdtemp(prefix="clv-benign-", dir=base)
    srepo = os.path.join(scratch, "repo")
    sverif = os.path.join(scratch, "verif")
    results = []
    try:
        sh(["rsync", "-a", "--exclude", "target", REPO + "/", srepo + "/"])
        os.makedirs(sverif)
        for f in ["run.py", "known_findings.json", "properties.jsonl"]:
            shutil.copy(os.path.join(ROOT, f), os.path.join(sverif, f))
        sh(["rsync", "-a", "--exclude", "target", "--exclude", "target-*", os.path.join(ROOT, "harness") + "/", os.path.join(sverif, "harness") + "/"])
        ct = os.path.join(sverif, "harness", "Cargo.toml")
        txt = open(ct).read().replace('path = "/repo"', 'path = "%s"' % srepo)
        open(ct, "w").write(txt)
        env = dict(os.environ)
        env["CARGO_NET_OFFLINE"] = "true"
        env.pop("RUSTFLAGS", None)
        env["CARGO_TARGET_DIR"] = os.path.join(scratch, "repo-target")
        for e in index:
            entry = dict(name=e["name"], what=e["what"], alarms=[], inconclusive=[])
            rc, out = sh(["git", "apply", "--whitespace=nowarn", os.path.join(ROOT, "benign", e["name"] + ".patch")], cwd=srepo)
            if rc != 0:
                entry["status"] = "patch-does-not-apply"
                results.append(entry)
                print("%-44s PATCH DOES NOT APPLY" % e["name"])
                continue
            try:
                rc, out = sh(["cargo", "test", "--offline", "--lib"], cwd=srepo, env=env)
                entry["passes_repo_tests"] = "test result: ok. 49 passed; 0 failed" in out
                if not entry["passes_repo_tests"]:
                    entry["status"] = "fails the repo's own tests"
                    results.append(entry)
                    print("%-44s fails the repo's own tests" % e["name"])
                    continue
                cenv = dict(os.environ)
                cenv["CLV_LANES"] = "dbg,rel"
                t1 = time.time()
                for p in props:
                    rc, out = sh([os.path.join(sverif, "run.py"), "check", p, "--tier", "quick"], cwd=sverif, env=cenv)
                    if rc == 1:
                        sigs = [l.strip() for l in out.splitlines() if l.strip().startswith("signature:")]
                        entry["alarms"].append(dict(property=p, signatures=sigs[:4]))
                    elif rc != 0:
                        entry["inconclusive"].append(dict(property=p, detail="\n".join([l for l in out.splitlines() if "INCONCLUSIVE" in l][:2])[:400]))
                entry["seconds"] = round(time.time() - t1, 1)
                entry["status"] = "silent" if not entry["alarms"] and not entry["inconclusive"] else "ALARM" if entry["alarms"] else "inconclusive"
                results.append(entry)
                print("%-44s %-12s %6.1fs %s %s" % (e["name"], entry["status"], entry["seconds"], entry["alarms"], entry["inconclusive"]))
            finally:
                sh(["git", "checkout", "--", "."], cwd=srepo)
    finally:
        shutil.rmtree(scratch, ignore_errors=True)
    json.dump(dict(results=results), open(os.path.join(ROOT, "evidence", "benign.json"), "w"), indent=1)
    bad = [r["name"] for r in results if r.get("status") != "silent"]
    print("benign: %d patches, not silent: %s" % (len(results), bad))
    return 0 if not bad else 1


def main(argv):
    if "--benign" in argv:
        return benign(argv)
    seeded_only = "--seeded" in argv
    words = [a for a in argv if not a.startswith("--")]
    mutants = load_mutants(words, seeded_only)
    if not mutants:
        print("no mutants selected")
        return 2
    base = os.environ.get("TMPDIR", "/tmp")
    scratch = tempfile.mkdtemp(prefix="clv-selftest-", dir=base)
    srepo = os.path.join(scratch, "repo")
    sverif = os.path.join(scratch, "verif")
    results = []
    t0 = time.time()
    try:
        # scratch copies: /repo's committed HEAD + working tree state, harness without build output
        sh(["rsync", "-a", "--exclude", "target", REPO + "/", srepo + "/"])
        os.makedirs(sverif)
        for f in ["run.py", "known_findings.json", "properties.jsonl"]:
            shutil.copy(os.path.join(ROOT, f), os.path.join(sverif, f))
        sh(["rsync", "-a", "--exclude", "target", "--exclude", "target-*", os.path.join(ROOT, "harness") + "/", os.path.join(sverif, "harness") + "/"])
        # the scratch harness builds against the scratch repository
        ct = os.path.join(sverif, "harness", "Cargo.toml")
        txt = open(ct).read().replace('path = "/repo"', 'path = "%s"' % srepo)
        open(ct, "w").write(txt)
        lock = os.path.join(sverif, "harness", "Cargo.lock")
        env = dict(os.environ)
        env["CARGO_NET_OFFLINE"] = "true"
        env.pop("RUSTFLAGS", None)
        env["CARGO_TARGET_DIR"] = os.path.join(scratch, "repo-target")
        # sanity: unmutated scratch passes its tests
        rc, out = sh(["cargo", "test", "--offline"], cwd=srepo, env=env)
        if "test result: ok. 49 passed" not in out:
            print("scratch copy does not pass the baseline tests:\n" + out[-2000:])
            return 2
        seen_patch_tests = {}
        for mu in mutants:
            entry = dict(name=mu["name"], property=mu["property"], what=mu["what"], kind=mu["kind"])
            rc, out = sh(["git", "apply", "--whitespace=nowarn", mu["patch"]], cwd=srepo)
            if rc != 0:
                entry.update(status="patch-does-not-apply", detail=out[-400:])
                results.append(entry)
                print("%-40s %-4s PATCH DOES NOT APPLY" % (mu["name"], mu["property"]))
                continue
            try:
                if mu["patch"] not in seen_patch_tests:
                    rc, out = sh(["cargo", "test", "--offline"], cwd=srepo, env=env)
                    seen_patch_tests[mu["patch"]] = "test result: ok. 49 passed; 0 failed" in out
                entry["passes_repo_tests"] = seen_patch_tests[mu["patch"]]
                if not entry["passes_repo_tests"]:
                    entry["status"] = "not-a-valid-mutant (repo tests fail)"
                    results.append(entry)
                    print("%-40s %-4s fails the repo's own tests - not a valid mutant" % (mu["name"], mu["property"]))
                    continue
                cenv = dict(os.environ)
                cenv["CLV_LANES"] = mu["lanes"]
                cenv["VERIF_SEED"] = os.environ.get("VERIF_SEED", "1")
                t1 = time.time()
                rc, out = sh([os.path.join(sverif, "run.py"), "check", mu["property"], "--tier", mu.get("tier", "quick")], cwd=sverif, env=cenv)
                sigs = [l.strip()[len("signature:"):].strip() for l in out.splitlines() if l.strip().startswith("signature:")]
                entry.update(exit=rc, seconds=round(time.time() - t1, 1), signatures=sigs[:6])
                if rc == 1 and "VIOLATION property=%s" % mu["property"] in out:
                    entry["status"] = "killed"
                elif rc == 2:
                    entry["status"] = "inconclusive"
                    entry["detail"] = "\n".join([l for l in out.splitlines() if "INCONCLUSIVE" in l][:3])[:600]
                else:
                    entry["status"] = "SURVIVED"
                results.append(entry)
                print("%-40s %-4s %-12s %5.1fs %s" % (mu["name"], mu["property"], entry["status"], entry["seconds"], "; ".join(sigs[:2])[:110]))
            finally:
                sh(["git", "checkout", "--", "."], cwd=srepo)
                sh(["git", "clean", "-fdq", "--exclude", "target"], cwd=srepo)
    finally:
        shutil.rmtree(scratch, ignore_errors=True)
    valid = [r for r in results if r.get("passes_repo_tests")]
    killed = [r for r in valid if r["status"] == "killed"]
    survived = [r for r in valid if r["status"] != "killed"]
    summary = dict(mutants=len(results), valid=len(valid), killed=len(killed), not_killed=[r["name"] + ":" + r["property"] for r in survived],
                   wall_s=round(time.time() - t0, 1), results=results)
    # merge with an earlier matrix when only a subset was run
    path = os.environ.get("CLV_SELFTEST_OUT", os.path.join(ROOT, "evidence", "selftest.json"))
    if (words or seeded_only) and os.path.exists(path):
        old = json.load(open(path))
        keep = [r for r in old.get("results", []) if (r["name"], r["property"]) not in {(x["name"], x["property"]) for x in results}]
        allr = keep + results
        v = [r for r in allr if r.get("passes_repo_tests")]
        summary = dict(mutants=len(allr), valid=len(v), killed=len([r for r in v if r["status"] == "killed"]),
                       not_killed=[r["name"] + ":" + r["property"] for r in v if r["status"] != "killed"], wall_s=summary["wall_s"], results=allr)
    os.makedirs(os.path.join(ROOT, "evidence"), exist_ok=True)
    json.dump(summary, open(path, "w"), indent=1)
    print("selftest: %d mutants, %d valid, %d killed, not killed: %s" % (len(results), len(valid), len(killed), [r["name"] for r in survived]))
    return 0 if not survived else 1


if __name__ == "__main__":
    sys.exit(main(sys.argv[1:]))
