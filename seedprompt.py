#!/usr/bin/env python3
"""Writes the prompt (and creates the scratch worktree) for a fresh sub-agent that is asked to
seed a property-breaking change.  The sub-agent gets the property text and its worktree only;
nothing from /verif is readable from the prompt except the one-line descriptions of ideas that
are already known (so that a new round does not repeat them).

  ./seedprompt.py <scratch-dir> C01 C14 ...     # creates <scratch-dir>/<id> (git worktree) and <scratch-dir>/<id>.prompt.txt
  afterwards:  ./seedcheck.sh <scratch-dir>/<id> <name> <id> ; git -C /repo worktree remove --force <scratch-dir>/<id>
"""
import json
import os
import subprocess
import sys

ROOT = os.path.dirname(os.path.abspath(__file__))

TEMPLATE = """You are working ONLY inside the directory {wt} , which is a git worktree of the Rust crate `coap-lite` (a no_std CoAP message codec with Observe tracking, an RFC 7959 block-wise transfer handler and an RFC 6690 link-format parser/writer). Do not read or write anything outside {wt} (in particular never touch /repo or /verif). The sandbox is offline: always pass `--offline` to cargo and set `CARGO_TARGET_DIR={wt}/target`.

Here is a semantic property the crate is supposed to satisfy:

-----
{pid} — {title}

Statement: {statement}

Quantified over: {quant}

-----

YOUR TASK: seed a realistic defect. Produce a code change to the crate's `src/` (the kind of regression a maintainer could plausibly introduce while refactoring, optimising or adding a feature) such that:
 1. the crate still compiles, and the existing test suite still passes unchanged: `cargo test --offline --lib` must report `49 passed; 0 failed` for the lib tests;
 2. the property above becomes FALSE for some inputs / histories;
 3. the defect needs something SPECIFIC to manifest - a particular multi-step sequence of operations, an unusual or boundary input, a particular interleaving of two transfers, a fault at a particular point, or two cooperating code sites that each look fine alone. It must NOT be something that ordinary straightforward use would expose at once (e.g. do not break the common path for every input).
 4. Keep the change small (a few lines to ~30 lines), natural-looking, no comments that give it away. Do not edit existing tests, Cargo.toml dependencies, or the `#[cfg(coap_lite_verif)]` hook functions (leave those exactly as they are).

Also write a DEMONSTRATION: a new integration test file `tests/demo.rs` using only the crate's public API, with one or more `#[test]` functions that FAIL with your change applied and PASS on the original code. Keep it deterministic (no wall-clock dependence unless the property is about time; if it is, use generous margins).

VERIFY both directions yourself and record the exact commands and their outcomes:
 (a) with your change: `cargo test --offline --lib` -> 49 passed; `cargo test --offline --test demo` -> at least one failure;
 (b) original code (`git stash push -- src` ... run ... `git stash pop`): `cargo test --offline --test demo` -> all pass.

DELIVERABLES (all inside {wt}):
 - leave your `src/` change UNCOMMITTED in the working tree (so `git diff -- src` shows exactly the seeded change);
 - `tests/demo.rs`;
 - `SEED_REPORT.md` with: which clause of the property breaks; what exactly is needed for it to manifest (inputs, sequence, configuration); why the existing tests do not notice; the commands you ran and their results.
When done, reply with a short summary (the changed file/function, the trigger condition, and the verification results). If you cannot find a change that passes the existing tests, say so plainly rather than delivering something that fails them.


ADDITIONAL GUIDANCE FOR THIS ROUND: assume the people guarding this property already run (a) randomized round-trip / differential tests with boundary-biased inputs, (b) a step-by-step comparison against a simple reference model on short operation sequences, and (c) the obvious single-scenario regression tests. Aim for a defect that would still slip past such checks for a while: it should depend on a RARE conjunction (e.g. two specific values meeting, a particular size relation between two different messages, state left behind by an EARLIER, differently-shaped operation, a sequence of at least 4-5 specific steps, an uncommon-but-legal option combination or message type or message context, or a build configuration such as the `udp` feature or disabled overflow checks). It must still be a genuine violation of the property as stated (stay inside the quantified domain; the property text decides, not a neighbouring property), and still pass the existing lib tests. Do NOT use these already-known ideas (all of them are already detected, as are close variants of them): {known}.
Practical note: never run `cargo test --offline --doc` or plain `cargo test` without `--lib`/`--test demo` (a doc example blocks on a UDP socket).
"""


def main(argv):
    scratch = argv[0]
    os.makedirs(scratch, exist_ok=True)
    props = {json.loads(l)["id"]: json.loads(l) for l in open(os.path.join(ROOT, "properties.jsonl"))}
    known = {}
    for e in json.load(open(os.path.join(ROOT, "mutants", "index.json"))):
        known.setdefault(e["property"], []).append(e["what"])
    sd = os.path.join(ROOT, "seeded")
    for d in sorted(os.listdir(sd)):
        mp = os.path.join(sd, d, "meta.json")
        if os.path.exists(mp):
            m = json.load(open(mp))
            known.setdefault(m.get("labelled_by_author", m["property"]), []).append(m["breaks"][:170])
    for pid in argv[1:]:
        d = props[pid]
        wt = os.path.join(scratch, pid)
        subprocess.run(["git", "-C", "/repo", "worktree", "add", "--detach", "-q", wt, "HEAD"], check=True)
        txt = TEMPLATE.format(wt=wt, pid=pid, title=d["title"], statement=d["statement"], quant=d["quantifier"]["text"], known="; ".join(known.get(pid, ["(none yet)"])))
        open(os.path.join(scratch, pid + ".prompt.txt"), "w").write(txt)
        print(pid, len(txt))


if __name__ == "__main__":
    main(sys.argv[1:])
