#!/usr/bin/env python3
"""Runner for the coap-lite runtime-monitoring checks (see DESIGN.md).

  ./run.py check C01 [--tier quick|thorough]   (env: VERIF_SEED, VERIF_TIER)
  ./run.py setup                               build every lane
  ./run.py replay <replay-file>
  ./run.py selftest [ids...]                   mutants/*.patch sensitivity test

Exit codes: 0 held on everything explored (KNOWN-FINDING lines possible); 1 violation
(one `VIOLATION property=<id> replay=<path>` line per unlisted signature); 2 inconclusive
(build failure, watchdog, coverage floor unmet, harness error) - never a VIOLATION line.
"""
import json
import os
import shutil
import signal
import subprocess
import sys
import time
from concurrent.futures import ThreadPoolExecutor

ROOT = os.path.dirname(os.path.abspath(__file__))
HARNESS = os.path.join(ROOT, "harness")
TARGET = os.path.join(HARNESS, "target")
REPO = os.environ.get("CLV_REPO", "/repo")
GUARD = "coap_lite_verif"
NCPU = min(16, os.cpu_count() or 4)

BASE_ENV = dict(os.environ)
BASE_ENV.update({"CARGO_NET_OFFLINE": "true", "CARGO_TERM_COLOR": "never"})
BASE_ENV.pop("RUSTFLAGS", None)

# ----------------------------------------------------------------------------- lanes
# name -> build description
LANES = {
    "dbg": dict(toolchain=None, profile="dev", features=["std", "vclock"], rustflags=""),
    "rel": dict(toolchain=None, profile="release", features=["std", "vclock"], rustflags=""),
    # what a plain `cargo build` gives a user: no optimisation at all (deep recursion stays deep,
    # nothing is folded away) - the other debug lanes use opt-level 1 for speed
    "dbg0": dict(toolchain=None, profile="dev", features=["std", "vclock"], rustflags="", env={"CARGO_PROFILE_DEV_OPT_LEVEL": "0"}),
    "udp": dict(toolchain=None, profile="dev", features=["std", "udp"], rustflags=""),
    "udprel": dict(toolchain=None, profile="release", features=["std", "udp"], rustflags=""),
    "nostd": dict(toolchain=None, profile="dev", features=[], rustflags=""),
    "miri": dict(toolchain="nightly", profile="dev", features=["std"], rustflags="", miri=True),
    "asan": dict(toolchain="nightly", profile="dev", features=["std"],
                 rustflags="-Zsanitizer=address -Cforce-frame-pointers=yes", target="x86_64-unknown-linux-gnu"),
    "asanrel": dict(toolchain="nightly", profile="release", features=["std"],
                    rustflags="-Zsanitizer=address -Cforce-frame-pointers=yes", target="x86_64-unknown-linux-gnu"),
    "memcheck": dict(alias="rel", valgrind=True),
    # source-coverage build (not a check lane: used by `./run.py coverage`)
    "cov": dict(toolchain="nightly", profile="dev", features=["std", "vclock"], rustflags="-Cinstrument-coverage"),
}


def lane_build_name(lane):
    return LANES[lane].get("alias", lane)


def lane_env(lane):
    d = LANES[lane_build_name(lane)]
    env = dict(BASE_ENV)
    env["RUSTFLAGS"] = ("--cfg %s %s" % (GUARD, d["rustflags"])).strip()
    env["CARGO_TARGET_DIR"] = os.path.join(TARGET, lane_build_name(lane))
    env.update(d.get("env", {}))
    if d.get("miri"):
        env["MIRIFLAGS"] = "-Zmiri-disable-isolation"
    if "asan" in lane:
        env["ASAN_OPTIONS"] = "halt_on_error=1:abort_on_error=1:detect_leaks=0:allocator_may_return_null=1"
    return env


def cargo_base(lane):
    d = LANES[lane_build_name(lane)]
    cmd = ["cargo"]
    if d["toolchain"]:
        cmd.append("+" + d["toolchain"])
    return cmd, d


def build_cmd(lane):
    cmd, d = cargo_base(lane)
    if d.get("miri"):
        # `cargo miri run` builds on demand; pre-build by running a trivial command
        cmd += ["miri", "run", "--offline", "--bin", "clv", "--no-default-features"]
        if d["features"]:
            cmd += ["--features", ",".join(d["features"])]
        cmd += ["--", "noop"]
        return cmd
    cmd += ["build", "--offline", "--bin", "clv", "--no-default-features"]
    if d["features"]:
        cmd += ["--features", ",".join(d["features"])]
    if d["profile"] == "release":
        cmd.append("--release")
    if d.get("target"):
        cmd += ["--target", d["target"]]
    return cmd


def binary_path(lane):
    d = LANES[lane_build_name(lane)]
    p = os.path.join(TARGET, lane_build_name(lane))
    if d.get("target"):
        p = os.path.join(p, d["target"])
    return os.path.join(p, "release" if d["profile"] == "release" else "debug", "clv")


_built = {}


def build_lane(lane):
    """Build (incrementally) the harness for one lane from /repo's current tree.  Returns
    (ok, log)."""
    b = lane_build_name(lane)
    if b in _built:
        return _built[b]
    cmd = build_cmd(b)
    t0 = time.time()
    p = subprocess.run(cmd, cwd=HARNESS, env=lane_env(b), stdout=subprocess.PIPE, stderr=subprocess.STDOUT, text=True)
    ok = p.returncode == 0
    if LANES[b].get("miri"):
        # the noop command exits 2 ("unknown property") after a successful build
        ok = "unknown property noop" in p.stdout or p.returncode == 0
    _built[b] = (ok, p.stdout[-6000:], time.time() - t0)
    return _built[b]


def shard_cmd(lane, prop, level, budget, seed, shard, nshards, out):
    args = [prop, "--lane", lane, "--level", str(level), "--budget", str(budget), "--seed", str(seed),
            "--shard", str(shard), "--nshards", str(nshards), "--out", out]
    d = LANES[lane_build_name(lane)]
    if d.get("miri"):
        cmd, _ = cargo_base(lane)
        cmd += ["miri", "run", "--offline", "--bin", "clv", "--no-default-features"]
        if d["features"]:
            cmd += ["--features", ",".join(d["features"])]
        return cmd + ["--"] + args
    if LANES[lane].get("valgrind"):
        return ["valgrind", "-q", "--error-exitcode=9", "--errors-for-leak-kinds=none", "--leak-check=no",
                binary_path(lane)] + args
    return [binary_path(lane)] + args


# ----------------------------------------------------------------------------- plan
# per property: level (evidence), rule, assumptions and, per tier, the lanes to run:
# (lane, level, budget-per-shard, nshards, watchdog seconds)
def L(lane, level, budget, nshards, watchdog=900):
    return dict(lane=lane, level=level, budget=budget, nshards=nshards, watchdog=watchdog)


COMMON_ASSUME = [
    "verdict is 'held on the executions observed', not a proof",
    "reference oracles in /verif/harness/src are transcribed from the RFCs / property text and trusted",
    "rustc/cargo, and for sanitizer lanes Miri / ASan / valgrind, are trusted",
]

PLAN = {
    "C01": dict(
        level="exploration", design="DESIGN.md#C01",
        rule=("boundary-directed random messages (option deltas / value lengths drawn around 13, 269, 65535; versions 0-3; "
              "tokens 0-8; all code bytes) built through the public API under a randomised call order, encoded, compared "
              "byte-for-byte with an independent RFC 7252 encoder, decoded and compared field by field. "
              "distinct_nontrivial = distinct structural signatures (per-option delta class x length class sequence, token "
              "length, marker, version) among messages with an extended delta/length, >=2 options or version != 1"),
        assumptions=["option values above 65804 bytes are outside C01 (C04 covers refusal)"],
        quick=[L("dbg", 1, 4000, 16), L("rel", 1, 4000, 16), L("nostd", 1, 1500, 4), L("udp", 1, 1500, 4),
               L("asan", 0, 1500, 4), L("miri", 0, 60, 16, 1500)],
        thorough=[L("dbg", 2, 120000, 16), L("rel", 2, 120000, 16), L("nostd", 2, 40000, 8), L("udp", 2, 40000, 8),
                  L("asan", 0, 20000, 8), L("asanrel", 0, 20000, 8), L("memcheck", 0, 3000, 8), L("miri", 0, 500, 16, 3600)],
    ),
    "C02": dict(
        level="exploration", design="DESIGN.md#C02",
        rule=("datagram corpus: exhaustive byte-string suffixes (<=2 bytes quick, <=3 thorough) after 6 headers; every option "
              "header byte x swept 1-/2-byte delta and length extension values with right-length and one-short values; every "
              "prefix and single-byte substitution of generated well-formed messages; biased random strings; directed "
              "malformed families. Every accepted datagram is re-encoded and compared with the input (minus the two "
              "permitted differences). distinct_nontrivial = distinct structural signatures of accepted messages"),
        assumptions=["injectivity is checked directly only for accepted datagrams of <= 24 bytes (it follows from byte identity otherwise)"],
        quick=[L("dbg", 1, 20000, 16), L("rel", 1, 20000, 16), L("miri", 0, 40, 16, 1500)],
        thorough=[L("dbg", 2, 300000, 16, 3600), L("rel", 2, 300000, 16, 3600), L("asan", 1, 20000, 8), L("miri", 0, 300, 16, 3600)],
    ),
    "C03": dict(
        level="exploration", design="DESIGN.md#C03",
        rule=("same datagram corpus as C02; each input is classified by an independent three-valued RFC 7252 parser "
              "(must-accept with fields / must-reject / either) and the crate's result is compared; every panic or abort is a "
              "violation. distinct_nontrivial = distinct (reject class x family x length) and accepted structural signatures"),
        assumptions=["error variants are not pinned; RFC-stricter rejection (version != 1, empty payload after marker, content in 0.00) is allowed"],
        quick=[L("dbg", 1, 20000, 16), L("rel", 1, 20000, 16), L("asan", 1, 4000, 4), L("miri", 0, 40, 16, 1500)],
        thorough=[L("dbg", 2, 300000, 16, 3600), L("rel", 2, 300000, 16, 3600), L("asan", 1, 50000, 8), L("asanrel", 1, 50000, 8),
                  L("miri", 0, 300, 16, 3600)],
    ),
    "C04": dict(
        level="exploration", design="DESIGN.md#C04",
        rule=("generated messages x limits {W-1, W, W+1, 0, 3, 4, max, random}; messages steered to 1279/1280/1281 bytes "
              "(63999..64001 with `udp`) once through the payload and once through options only; 0.00 messages with large "
              "payloads; option values of 65803..131341 bytes. Oracle: exact wire length W from the reference encoder. Memory "
              "clause: same workload under Miri, ASan (dev+release) and valgrind memcheck, plus std ub_checks in the dbg "
              "lane. distinct_nontrivial = distinct (structural signature, W relative to the limit, kind)"),
        assumptions=["red-zone tools (ASan/memcheck) can miss intra-object overflows; Miri is the authoritative lane for the unsafe copies"],
        quick=[L("dbg", 1, 3000, 16), L("rel", 1, 3000, 16), L("udp", 1, 1500, 4), L("asan", 0, 1500, 4), L("asanrel", 0, 1500, 4),
               L("memcheck", 0, 300, 8), L("miri", 0, 40, 16, 1500)],
        thorough=[L("dbg", 2, 80000, 16), L("rel", 2, 80000, 16), L("udp", 2, 30000, 8), L("udprel", 2, 30000, 8),
                  L("asan", 0, 25000, 8), L("asanrel", 0, 25000, 8), L("memcheck", 0, 6000, 8), L("miri", 0, 500, 16, 3600)],
    ),
    "C05": dict(
        level="exploration", design="DESIGN.md#C05",
        rule=("finite and enumerated completely: all 65536 option numbers, all 65536 (+6) content-format ids, all 256 code bytes, "
              "all 256 first header bytes, 4x4x16x6 header setter orders, observe actions 0..2000, every named variant by name; "
              "compared with registry tables transcribed by hand from the RFCs / IANA. distinct_nontrivial = distinct named "
              "registry rows exercised (options, content formats, codes) + distinct first bytes unpacked"),
        assumptions=["the registry tables in harness/src/registry.rs were transcribed by hand from RFC 7252/7641/7959/7967/8132/8516/8613/8768 and the IANA CoRE Parameters registry"],
        quick=[L("dbg", 1, 1, 1), L("rel", 1, 1, 1), L("nostd", 1, 1, 1)],
        thorough=[L("dbg", 2, 1, 1), L("rel", 2, 1, 1), L("nostd", 2, 1, 1), L("udp", 2, 1, 1), L("miri", 0, 1, 1, 3600)],
    ),
    "C06": dict(
        level="exploration", design="DESIGN.md#C06",
        rule=("exhaustive u8 and u16 values at every width, all byte strings of length <=2 (quick) / <=3 (thorough) decoded at every "
              "width, every 2^k / 256^k neighbour for 32/64 bit, random values and random byte strings of 0..10 bytes with "
              "leading zeros, random Unicode strings and a catalogue of invalid UTF-8; typed accessors compared element by "
              "element with the raw lists. Oracle: arithmetic (minimal big-endian). distinct_nontrivial = distinct values / "
              "(length, leading-zero) classes / strings"),
        quick=[L("dbg", 1, 20000, 8), L("rel", 1, 20000, 8), L("nostd", 1, 5000, 2), L("miri", 0, 60, 4, 1500)],
        thorough=[L("dbg", 2, 400000, 16), L("rel", 2, 400000, 16), L("nostd", 2, 100000, 4), L("miri", 0, 400, 8, 3600)],
    ),
    "C07": dict(
        level="exploration", design="DESIGN.md#C07",
        rule=("product 4 types x 4 versions x token length 0-8 x message ids (every 61st + boundary ids quick; all 65536 thorough) with "
              "random code/options/payload, through CoapResponse::new, CoapRequest::from_packet and via the wire; every "
              "HandlingError constructor x every named status x response present/absent x pre-set content format. "
              "distinct_nontrivial = distinct (type, version, token length, mid high byte) + distinct error shapes"),
        quick=[L("dbg", 1, 1, 16), L("rel", 1, 1, 16)],
        thorough=[L("dbg", 2, 1, 16, 3600), L("rel", 2, 1, 16, 3600), L("miri", 0, 1, 4, 3600)],
    ),
    "C08": dict(
        level="exploration", design="DESIGN.md#C08",
        rule=("Block2 downloads driven through encoded datagrams by a client that fetches blocks in order: every body length "
              "0..3*size+1 for block sizes 16/32/64 x 4 client strategies, plus random bodies to 20000 bytes, budgets "
              "overhead+28..1280, strategies {no Block2, early negotiation, size reduction mid-transfer}, several reply option "
              "sets. Oracle: the body the application produced. distinct_nontrivial = distinct (server block size, length mod "
              "size, block count bucket, strategy, option-set size)"),
        quick=[L("dbg", 1, 300, 16), L("rel", 1, 300, 16)],
        thorough=[L("dbg", 2, 12000, 16, 3600), L("rel", 2, 12000, 16, 3600), L("asan", 0, 500, 8), L("miri", 0, 15, 8, 3600)],
    ),
    "C09": dict(
        level="exploration", design="DESIGN.md#C09",
        rule=("Block1 uploads through encoded datagrams: body lengths within +-2 of 0..4 block multiples for every SZX 0..6 x "
              "{no / longer / shorter / other-size abandoned earlier upload}, random bodies to 5000 bytes, each non-final block "
              "delivered 1-3 times, budgets that admit the client's size; plus un-negotiated large requests around the budget. "
              "Oracle: the body the client sent. distinct_nontrivial = distinct (block size, length mod size, block count bucket, "
              "abandoned blocks, abandoned size, duplicates?)"),
        assumptions=["a retransmitted FINAL block is message-layer deduplication's job and is not asserted as exactly-once (DESIGN.md C09)"],
        quick=[L("dbg", 1, 400, 16), L("rel", 1, 400, 16)],
        thorough=[L("dbg", 2, 15000, 16, 3600), L("rel", 2, 15000, 16, 3600), L("asan", 0, 500, 8), L("miri", 0, 15, 8, 3600)],
    ),
    "C10": dict(
        level="exploration", design="DESIGN.md#C10",
        rule=("downloads and uploads with budgets M such that M-overhead-12 lies in a +-3 band around every 2^k (k=4..10), every "
              "M in overhead+28..overhead+80, and random M to 1280; overhead varied by token length, path length 0-200 and "
              "extra options; client SZX none/0..7. Every handler-produced reply is measured as encoded bytes against M; "
              "chosen sizes compared with the client's. distinct_nontrivial = distinct (block size, length class, strategy) "
              "and (SZX, fits?, budget-overhead bucket)"),
        assumptions=["token length constant within a transfer; clients never raise the block size; application replies carry no Block2 of their own (property's configuration)"],
        quick=[L("dbg", 1, 300, 16), L("rel", 1, 300, 16)],
        thorough=[L("dbg", 2, 15000, 16, 3600), L("rel", 2, 15000, 16, 3600)],
    ),
    "C11": dict(
        level="exploration", design="DESIGN.md#C11",
        rule=("random request sequences (1-6 requests quick, up to 40 thorough) against one handler: option bloat to 1400 bytes, Block1/"
              "Block2 numbers {0,1,2,3,100,4095,4096,65535,2^19}, SZX 0..7, malformed block bytes, payloads 0..1200, all four "
              "message types, budgets {0..64, 1152, <=5000, directed budget-overhead-12 in {-1,0,1,2,3,15,16}}, application "
              "replies 0..10000 bytes / large options / own Block2; directed far-jump sequences per SZX. Monitors: panic capture "
              "on both entry points, error renderability, buffered-upload length before/after each call (hook) and body handed "
              "over. distinct_nontrivial = distinct (budget bucket, block option shapes, overhead>budget, type, outcome)"),
        quick=[L("dbg", 1, 6000, 16), L("rel", 1, 6000, 16), L("udp", 1, 2000, 4), L("miri", 0, 5, 12, 1500)],
        thorough=[L("dbg", 2, 150000, 16, 3600), L("rel", 2, 150000, 16, 3600), L("asan", 0, 20000, 8), L("miri", 0, 60, 8, 3600)],
    ),
    "C12": dict(
        level="exploration", design="DESIGN.md#C12",
        rule=("scripted block-wise transfers (uploads, downloads, upload-then-blockwise-reply) in sets of 2-3 that differ pairwise in "
              "exactly one of endpoint / method / path (incl. [a,b] vs [a/b], prefixes, empty path); ALL interleavings of whole "
              "exchanges enumerated ((5,5)=252, (3,3,3)=1680, (4,4,4)=34650; thorough adds (5,5,5)=756756 per set), and of "
              "half-exchanges (intercept_request | application+intercept_response). Oracle: transcript of the same script run "
              "alone; unique mid/token per request. distinct_nontrivial = schedules executed (each enumerated once)"),
        quick=[L("dbg", 1, 1, 16), L("rel", 1, 1, 16)],
        thorough=[L("dbg", 2, 1, 16, 7200), L("rel", 2, 1, 16, 7200)],
    ),
    "C13": dict(
        level="exploration", design="DESIGN.md#C13",
        rule=("exhaustive num 0..65535 x more x SZX 0..7 encode/decode; decode of all byte strings of <=2 bytes and every 61st (quick) "
              "/ all (thorough) 3-byte strings, random 3..6-byte strings; BlockValue::new over num {0..4097, 65535, 65536, max} x "
              "sizes 0..8200 and 2^k+-1. Oracle: arithmetic. distinct_nontrivial = sampled distinct triples + (szx, num) "
              "construction classes"),
        quick=[L("dbg", 1, 2000, 8), L("rel", 1, 2000, 8), L("miri", 0, 20, 8, 1500)],
        thorough=[L("dbg", 2, 50000, 16), L("rel", 2, 50000, 16), L("miri", 0, 200, 4, 3600)],
    ),
    "C14": dict(
        level="exploration", design="DESIGN.md#C14",
        rule=("all operation sequences of depth 4 (quick) / 5 (thorough) over 2 endpoints x 2 tokens x 2 paths (+1 never-registered) x 2 "
              "message ids x {CON,NON} = 32 operations per step x limits {0,1}, compared step by step with a sequential reference "
              "model of the registry (eviction timing adopted from the implementation: C15 decides it); sampled depth+2 histories; "
              "random histories of length 200 over 6 endpoints, 5 paths, 4 tokens. distinct_nontrivial = histories enumerated "
              "(each exactly once) + distinct random histories; states = distinct model states reached"),
        quick=[L("dbg", 1, 1500, 16), L("rel", 1, 1500, 16)],
        thorough=[L("dbg", 2, 40000, 16, 7200), L("rel", 2, 40000, 16, 7200)],
    ),
    "C15": dict(
        level="exploration", design="DESIGN.md#C15",
        rule=("the C14 histories with limits {0,1,2} and the full model (counts, pending ids via hook or replay-and-probe, eviction "
              "exactly when count > limit, sequence +1 per round on an observed resource); directed long histories (up to 600 "
              "confirmable rounds) at limits 0,1,10,254,255 with acknowledgements / stale ids / other endpoints / re-registration "
              "at every phase; notification builder over token 0-8 x sequences across byte-length boundaries x both types. "
              "distinct_nontrivial = histories enumerated + distinct random/directed histories"),
        assumptions=["wrap of the 32-bit sequence (2^32 rounds) is not driven"],
        quick=[L("dbg", 1, 1500, 16), L("rel", 1, 1500, 16)],
        thorough=[L("dbg", 2, 40000, 16, 7200), L("rel", 2, 40000, 16, 7200)],
    ),
    "C16": dict(
        level="exploration", design="DESIGN.md#C16",
        rule=("values over {\" \\ , ; < > = space LF CR a 0 e-acute emoji} exhaustively to length 3 (quick) / 4 (thorough) written with "
              "attr and attr_quoted in a two-link document, plus random documents of 0-4 links x 0-4 attributes (all writer "
              "methods, hostile targets, newline option on/off); the writer's output is parsed back and compared. "
              "distinct_nontrivial = distinct values / documents"),
        quick=[L("dbg", 1, 1500, 8), L("rel", 1, 1500, 8), L("nostd", 1, 500, 2), L("miri", 0, 30, 4, 1500)],
        thorough=[L("dbg", 2, 60000, 16), L("rel", 2, 60000, 16), L("miri", 0, 200, 8, 3600)],
    ),
    "C17": dict(
        level="exploration", design="DESIGN.md#C17",
        rule=("all strings of length <=6 (quick) / <=8 (thorough) over {< > ; , \" \\ = space a e-acute}, the same alphabet to length 4/6 "
              "in attribute-value position, random strings to 60 chars over a wider alphabet with 3- and 4-byte scalars, every "
              "prefix of generated well-formed documents. Every iterator is drained under a step bound; pointer-range, order, "
              "silence-after-error and to_cow == to_string are checked. Miri/ASan watch the pointer arithmetic. "
              "distinct_nontrivial = enumerated strings that yielded at least one link or attribute + distinct random strings"),
        quick=[L("dbg", 1, 20000, 16), L("rel", 1, 20000, 16), L("dbg0", 1, 4000, 8), L("asan", 1, 5000, 4), L("miri", 0, 60, 16, 1500)],
        thorough=[L("dbg", 2, 300000, 16, 3600), L("rel", 2, 300000, 16, 3600), L("dbg0", 2, 60000, 16, 3600), L("asan", 1, 50000, 8), L("miri", 0, 1500, 16, 3600)],
    ),
    "C18": dict(
        level="fault_enumeration", design="DESIGN.md#C18",
        rule=("for each generated document (>=2 links; all attribute writer methods): fault-free run to learn the N sink calls, then "
              "EVERY call index k < N x {fail once, fail from k on} x newline on/off; oracle: final finish() is Err, every "
              "per-link finish() after the fault is Err, no write accepted after call k, sink content is a prefix of the "
              "fault-free output. distinct_nontrivial = distinct documents (each with its complete fault plan set)"),
        quick=[L("dbg", 1, 20, 16), L("rel", 1, 20, 16)],
        thorough=[L("dbg", 2, 1200, 16, 3600), L("rel", 2, 1200, 16, 3600), L("miri", 0, 1, 8, 3600)],
    ),
    "C19": dict(
        level="exploration", design="DESIGN.md#C19",
        rule=("every named method/status/content format/observe action through setter -> getter -> raw -> wire from fresh state and after "
              "another value; all 256 code bytes through the getters; paths over {/ a . e-acute} exhaustively to length 5 (quick) / 7 "
              "(thorough) with four prior states + random paths; raw Observe bytes of length 0..6; random messages through "
              "both coap-message trait versions (read, write, set_from_message, payload_mut_with_len, truncate, mutate_options). "
              "distinct_nontrivial = distinct names / paths / raw classes / message signatures"),
        quick=[L("dbg", 1, 2000, 16), L("rel", 1, 2000, 16), L("nostd", 1, 500, 2)],
        thorough=[L("dbg", 2, 60000, 16), L("rel", 2, 60000, 16), L("nostd", 2, 20000, 4), L("miri", 0, 100, 8, 3600)],
    ),
    "C20": dict(
        level="exploration", design="DESIGN.md#C20",
        rule=("histories with time in them under a frozen virtual clock (clock_gettime interposed; time moves only by injected "
              "delays): retention (download + upload kept alive through 3 rounds of idle-just-under-expiry with 1..2000 "
              "intervening requests on other keys, expiry 50 ms..1 h), expiry (0-2 refreshing touches, then idle expiry+2ms / "
              "1.5x / 10x: follow-up must reach the application, upload must restart from an empty buffer), reclamation "
              "(1..50 abandoned transfers, idle past expiry, ONE unrelated call: counting endpoint must show exactly one cache "
              "entry, every large buffer allocation gone); plus real-time runs (expiry 20-60 ms, sleep >= 4x) asserting only the "
              "must-be-expired direction. distinct_nontrivial = distinct (scenario, expiry, load / wait / count)"),
        assumptions=["virtual time replaces real hours; the interposed clock is self-tested in every shard"],
        quick=[L("dbg", 1, 20, 16), L("rel", 1, 20, 16)],
        thorough=[L("dbg", 2, 1300, 16, 3600), L("rel", 2, 1300, 16, 3600)],
    ),
}

# workloads added after the seeding rounds (DESIGN.md 8.4 has the history); appended to the rules above
ADDED = {
    "C01": "packets built on re-used objects (token of the same length, header replaced), runs of cleared neighbouring option keys, spare-capacity vectors, a share of adds through both coap-message versions",
    "C02": "semantic option values, heavy repeated options (> 64 KiB in total), length twins (lengths differing by 2^16), 1279..131077 options incl. floods of maximal deltas",
    "C03": "the same families as C02 judged by the reference parser; chains reaching the top of the option-number space",
    "C04": "inconsistent header TKL and enum-variant codes judged by self-consistency (limited call succeeds, with the same bytes, iff the serialiser's own unlimited output fits), spare-capacity vectors, oversize values under huge limits",
    "C05": "observe action read from GET and FETCH requests over every encoding of 0..5 bytes with other options alongside; header packing in every setter order",
    "C06": "context packets (all code classes / types / token lengths), meaningful values (protocol defaults), special strings (BOM, non-characters, separators ...) through codec and message accessors, strings of 12..200 000 bytes around every length threshold, congruent option keys coming and going",
    "C07": "bare messages for every code byte, replies pre-populated with 700-1400 bytes of options / Observe / equal Block1, taken responses, diagnostics up to 70 kB, replies that already look like the error reply (same code + text/plain + an equally long but different payload, from an earlier error or from the application), Size2 on request and reply",
    "C08": "sessions of several transfers on one key, busy server (70..2500 other requests between blocks, 14/100 open transfers of other clients), neighbour noise on confusable keys, crossing pending requests with the same message id, stale resume attempts, single Block1 repeated on follow-ups, long multi-byte paths, application replies with codes other than 2.05 (2.01/2.03/2.04, 4.xx/5.xx with long diagnostics), Observe among the reply options",
    "C09": "abandoned uploads with shared prefixes / Size1 announcements / other block sizes, a refused whole-body first try, uploads alternating with the fetch of an older block-wise reply, number echo required in-domain, methods POST/PUT/FETCH/PATCH/iPATCH, Block2 preference stated on non-final upload blocks",
    "C10": "edge-of-fragmentation bodies, later upload blocks with more options, sessions judged on budget clauses, late block after completion with grown overhead, deep resume into a 2.2 MB body, over-budget replies under error / non-2.05 codes without a client preference, fresh replies re-rendered for an earlier request (intercept_response alone)",
    "C11": "ladders around buffer+16 KiB, size announcements, text bloat in path/query options (multi-byte at every alignment, invalid UTF-8), newer option numbers with odd lengths; hook reads guarded",
    "C12": "50+ path-pair sets (segmentation, empty segments, case, query, hash collisions, percent escapes, length-prefix wrap, boundary shifts, non-UTF-8 segments and twins equal under lossy conversion, resuming GET next to POST), conservation of keys (100 000 / 250 000 distinct keys leave as many entries)",
    "C13": "constructor independent of history: ordered pairs, runs of consecutive blocks, a decode right before, a refused handler call on the same thread, and cold-start probes in fresh processes",
    "C14": "token families, limit changes as operations, acknowledgements with any token / message shape, CON and NON registrations, long-lived acknowledging observers across the message-id wrap, conservation of resources (400 000 paths)",
    "C15": "as C14, with the counters compared through the hooks and by replay-and-probe",
    "C16": "number-like texts and registry numbers under numeric keys, edge white space of every kind, wide values up to 20 000 bytes, RFC 8187 extended values",
    "C17": "quoted-value walk over line breaks / tabs / escapes, dictionary strings, long documents (200 000 / 2 000 000 repetitions of one unit), the unoptimised dbg0 lane",
    "C18": "numeric attributes under every key, texts of 1023..9000 bytes in every position, per-link finish() called / dropped / alternating, unrepresentable targets, extended values, documents of 65..520 links",
    "C19": "iterator protocol on both generic views, set_path differential over raw prior states, other URI options next to Uri-Path, observe accessor on any code byte and method, context packets",
    "C20": "expiry inside the application callback, neighbour traffic on confusable keys answered 2.02 / 2.04 / 2.01 / 2.03 / 4.04, refused requests of the observed endpoint on other keys, crossing requests at download start, Max-Age on cached replies, long-lived handler generations, refused reclamation probes, conservation of keys",
}
for _pid, _txt in ADDED.items():
    PLAN[_pid]["rule"] = PLAN[_pid]["rule"] + " | added during the seeding rounds: " + _txt

# the thorough tier repeats every property's quick debug workload without any optimisation (lane
# dbg0) - except C02, whose parser workload is C03's
for _pid, _d in PLAN.items():
    if _pid == "C02" or any(l["lane"] == "dbg0" for l in _d["thorough"]):
        continue
    _q = [l for l in _d["quick"] if l["lane"] == "dbg"]
    if _q:
        _l = dict(_q[0])
        _l["lane"] = "dbg0"
        _l["watchdog"] = max(_l["watchdog"], 3600)
        _d["thorough"].append(_l)



# ----------------------------------------------------------------------------- running
def run_shard(job):
    t0 = time.time()
    env = lane_env(job["lane"])
    try:
        p = subprocess.run(job["cmd"], cwd=HARNESS, env=env, stdout=subprocess.PIPE, stderr=subprocess.PIPE,
                           timeout=job["watchdog"])
        rc, out, err, timed_out = p.returncode, p.stdout.decode("utf-8", "replace"), p.stderr.decode("utf-8", "replace"), False
    except subprocess.TimeoutExpired as e:
        rc, timed_out = None, True
        out = (e.stdout or b"").decode("utf-8", "replace")
        err = (e.stderr or b"").decode("utf-8", "replace")
    job.update(rc=rc, stdout=out[-4000:], stderr=err[-12000:], timed_out=timed_out, wall=time.time() - t0)
    rep = None
    if os.path.exists(job["out"]):
        try:
            with open(job["out"]) as f:
                rep = json.load(f)
        except Exception:
            rep = None
    job["report"] = rep
    return job


def classify_abnormal(job):
    """A shard that did not exit 0 with a report.  Returns ('violation', sig, detail) or
    ('inconclusive', reason)."""
    err = job["stderr"]
    if job["timed_out"]:
        return ("inconclusive", "watchdog (%ds) expired" % job["watchdog"])
    for line in err.splitlines():
        if line.startswith("CLV-ABORT-PANIC"):
            msg = line[len("CLV-ABORT-PANIC"):].strip()
            head = msg.split("|")[0].strip()
            return ("violation", "abort-panic:" + strip_digits(head)[:100], msg[:3000])
    if "AddressSanitizer" in err:
        kind = "unknown"
        for line in err.splitlines():
            if "ERROR: AddressSanitizer:" in line:
                kind = line.split("AddressSanitizer:")[1].strip().split(" ")[0]
                break
        return ("violation", "asan:" + kind, tail(err, 60))
    if "Undefined Behavior" in err and LANES[lane_build_name(job["lane"])].get("miri"):
        line = [l for l in err.splitlines() if "Undefined Behavior" in l][0]
        return ("violation", "miri-ub:" + strip_digits(line.split("Undefined Behavior:")[-1].strip())[:100], tail(err, 60))
    if LANES[job["lane"]].get("valgrind") and job["rc"] == 9:
        kinds = [l for l in err.splitlines() if "== Invalid" in l or "uninitialised" in l]
        k = strip_digits(kinds[0].split("== ")[-1])[:60] if kinds else "error"
        return ("violation", "memcheck:" + k, tail(err, 60))
    if "CLV-HARNESS-PANIC" in err:
        return ("inconclusive", "harness panic: " + [l for l in err.splitlines() if "CLV-HARNESS-PANIC" in l][0][:300])
    if "memory allocation of" in err:
        return ("inconclusive", "allocation failure in shard: " + tail(err, 3))
    if job["rc"] is not None and job["rc"] < 0:
        sig = -job["rc"]
        if sig in (signal.SIGSEGV, signal.SIGBUS, signal.SIGILL, signal.SIGABRT, signal.SIGFPE):
            return ("violation", "crash:signal-%d" % sig, tail(err, 40))
        return ("inconclusive", "shard killed by signal %d" % sig)
    return ("inconclusive", "shard exited %s without a report: %s" % (job["rc"], tail(err, 8)))


def strip_digits(s):
    out = []
    prev = ""
    for c in s:
        if c.isdigit():
            c = "#"
            if prev == "#":
                continue
        out.append(c)
        prev = c
    return "".join(out)


def tail(s, n):
    return "\n".join(s.splitlines()[-n:])


def load_known():
    p = os.path.join(ROOT, "known_findings.json")
    if not os.path.exists(p):
        return {"known": [], "fixed": []}
    with open(p) as f:
        return json.load(f)


def check(prop, tier, seed):
    t_start = time.time()
    if prop not in PLAN:
        print("unknown property %s" % prop)
        return 2
    plan = PLAN[prop]
    lanes = plan[tier] if tier in plan else plan["quick"]
    if os.environ.get("CLV_LANES"):
        want = os.environ["CLV_LANES"].split(",")
        lanes = [l for l in lanes if l["lane"] in want]
    inconclusive = []
    # 1. build lanes (in parallel; separate target dirs)
    need = sorted(set(lane_build_name(l["lane"]) for l in lanes))
    with ThreadPoolExecutor(max_workers=4) as ex:
        results = list(ex.map(build_lane, need))
    build_info = {}
    for b, (ok, log, secs) in zip(need, results):
        build_info[b] = dict(ok=ok, seconds=round(secs, 1))
        if not ok:
            inconclusive.append("build of lane %s failed:\n%s" % (b, tail(log, 30)))
    if inconclusive:
        for m in inconclusive:
            print("INCONCLUSIVE property=%s %s" % (prop, m))
        return 2
    # 2. run shards
    rundir = os.path.join(TARGET, "run", "%s-%s-%d" % (prop, tier, os.getpid()))
    shutil.rmtree(rundir, ignore_errors=True)
    os.makedirs(rundir)
    jobs = []
    for l in lanes:
        for s in range(l["nshards"]):
            out = os.path.join(rundir, "%s-%d.json" % (l["lane"], s))
            jobs.append(dict(lane=l["lane"], shard=s, out=out, watchdog=l["watchdog"],
                             cmd=shard_cmd(l["lane"], prop, l["level"], l["budget"], seed, s, l["nshards"], out)))
    # heavy lanes first so they overlap with the light ones
    order = {"miri": 0, "memcheck": 1, "asan": 2, "asanrel": 2}
    jobs.sort(key=lambda j: order.get(j["lane"], 3))
    with ThreadPoolExecutor(max_workers=NCPU) as ex:
        jobs = list(ex.map(run_shard, jobs))
    # 3. merge
    merged = dict(evaluations=0, counters={}, buckets={}, viol_counts={}, distinct=set(), states=set(), samples=[], notes=[],
                  violations=[], exhaustive=True)
    per_lane = {}
    for j in jobs:
        pl = per_lane.setdefault(j["lane"], dict(evaluations=0, shards=0, wall_s=0.0, counters={}, buckets={}, floors={},
                                                 distinct=set()))
        pl["shards"] += 1
        pl["wall_s"] = max(pl["wall_s"], round(j["wall"], 2))
        rep = j["report"]
        if rep is None or j["rc"] != 0:
            kind = classify_abnormal(j)
            if kind[0] == "violation":
                sig = "%s" % kind[1]
                merged["viol_counts"][sig] = merged["viol_counts"].get(sig, 0) + 1
                merged["violations"].append(dict(sig=sig, detail="[lane %s shard %d] %s" % (j["lane"], j["shard"], kind[2]),
                                                 witness="command: " + " ".join(j["cmd"]), lane=j["lane"]))
            else:
                inconclusive.append("[lane %s shard %d] %s" % (j["lane"], j["shard"], kind[1]))
            if rep is None:
                continue
        merged["evaluations"] += rep["evaluations"]
        pl["evaluations"] += rep["evaluations"]
        for k, v in rep["counters"].items():
            merged["counters"][k] = merged["counters"].get(k, 0) + v
            pl["counters"][k] = pl["counters"].get(k, 0) + v
        for k, v in rep["buckets"].items():
            merged["buckets"][k] = merged["buckets"].get(k, 0) + v
            pl["buckets"][k] = pl["buckets"].get(k, 0) + v
        for k, v in rep["viol_counts"].items():
            merged["viol_counts"][k] = merged["viol_counts"].get(k, 0) + v
        merged["distinct"].update(rep["distinct"])
        pl["distinct"].update(rep["distinct"])
        pl["disjoint"] = pl.get("disjoint", 0) + rep.get("distinct_disjoint", 0)
        merged["states"].update(rep.get("states", []))
        for s in rep["samples"]:
            if len(merged["samples"]) < 12 and (j["shard"] < 3):
                merged["samples"].append("[%s] %s" % (j["lane"], s))
        for n in rep["notes"]:
            if n not in merged["notes"]:
                merged["notes"].append(n)
        for v in rep["violations"]:
            v = dict(v)
            v["lane"] = j["lane"]
            v["cmd"] = " ".join(j["cmd"])
            merged["violations"].append(v)
        pl["exhaustive"] = pl.get("exhaustive", True) and rep.get("exhaustive", False)
        for name, m in rep["floors"]:
            pl["floors"][name] = max(pl["floors"].get(name, 0), m)
    # coverage floors per lane
    for lane, pl in per_lane.items():
        for name, m in pl["floors"].items():
            have = pl["counters"].get(name, pl["buckets"].get(name, 0))
            if have < m:
                inconclusive.append("[lane %s] coverage floor unmet: %s = %d < %d" % (lane, name, have, m))
    # 4. known findings / verdict
    known = load_known()
    known_sigs = {(k["property"], k["signature"]): k for k in known.get("known", [])}
    os.makedirs(os.path.join(ROOT, "replays"), exist_ok=True)
    unlisted = []
    for sig, n in sorted(merged["viol_counts"].items()):
        if (prop, sig) in known_sigs:
            print("KNOWN-FINDING: property=%s %s (%d occurrences; %s)" % (prop, sig, n, known_sigs[(prop, sig)].get("what", "")))
        else:
            unlisted.append((sig, n))
    rc = 0
    for i, (sig, n) in enumerate(unlisted):
        inst = [v for v in merged["violations"] if v["sig"] == sig][:3]
        path = os.path.join(ROOT, "replays", "%s-%s-%d-%d.json" % (prop, tier, seed, i))
        with open(path, "w") as f:
            json.dump(dict(property=prop, signature=sig, occurrences=n, tier=tier, seed=seed, instances=inst), f, indent=1)
        first = inst[0] if inst else {}
        print("VIOLATION property=%s replay=%s" % (prop, path))
        print("  signature: %s  (x%d)" % (sig, n))
        if first:
            print("  lane: %s" % first.get("lane"))
            print("  detail: %s" % first.get("detail", "")[:600])
            print("  witness: %s" % first.get("witness", "")[:600])
        rc = 1
    # 5. evidence
    wall = time.time() - t_start
    # distinct non-trivial cases: per lane, hashed signatures (union over shards) plus exactly
    # enumerated ones (shards partition the space); lanes repeat the same workload, so take the max
    nontrivial = max([len(v["distinct"]) + v.get("disjoint", 0) for v in per_lane.values()] + [0])
    cov = dict(
        evaluations=merged["evaluations"],
        distinct_nontrivial=nontrivial,
        rule=plan["rule"],
        samples=merged["samples"] if merged["samples"] else ["(no sample recorded)"],
        # true when at least one full-size lane enumerated its finite space completely in every shard
        # (interpreter-sized lanes thin the enumeration and never count)
        exhaustive=any(v.get("exhaustive", False) and v["evaluations"] > 0 for v in per_lane.values()),
        lanes={k: dict(evaluations=v["evaluations"], shards=v["shards"], max_shard_wall_s=v["wall_s"],
                       distinct_signatures=len(v["distinct"]) + v.get("disjoint", 0)) for k, v in per_lane.items()},
        observations=merged["counters"],
        coverage_buckets=merged["buckets"],
        builds=build_info,
        notes=merged["notes"],
        inconclusive=inconclusive,
        violation_signatures=merged["viol_counts"],
    )
    if merged["states"]:
        cov["states"] = len(merged["states"])
    ev = dict(property_id=prop, tier=tier, seed=seed, level=plan["level"], coverage=cov,
              assumptions=COMMON_ASSUME + plan.get("assumptions", []), wall_s=round(wall, 2),
              violations=sum(merged["viol_counts"].values()))
    os.makedirs(os.path.join(ROOT, "evidence"), exist_ok=True)
    with open(os.path.join(ROOT, "evidence", "%s.json" % prop), "w") as f:
        json.dump(ev, f, indent=1, sort_keys=True)
    shutil.rmtree(rundir, ignore_errors=True)
    if rc == 0 and inconclusive:
        for m in inconclusive:
            print("INCONCLUSIVE property=%s %s" % (prop, m))
        rc = 2
    lanes_txt = ", ".join("%s:%d" % (k, v["evaluations"]) for k, v in sorted(per_lane.items()))
    print("%s tier=%s seed=%d evaluations=%d distinct_nontrivial=%d violations=%d wall=%.1fs lanes[%s] -> %s" % (
        prop, tier, seed, merged["evaluations"], nontrivial, sum(merged["viol_counts"].values()), wall, lanes_txt,
        {0: "HELD", 1: "VIOLATED", 2: "INCONCLUSIVE"}[rc]))
    return rc


def coverage():
    """Which lines of /repo/src do the quick workloads actually execute?  Builds the harness with
    -Cinstrument-coverage, runs every property's workload (two shards, quick level, reduced
    budget), merges the profiles and writes evidence/coverage.json."""
    import glob
    tools = os.path.join(os.path.expanduser("~"), ".rustup/toolchains/nightly-x86_64-unknown-linux-gnu/lib/rustlib/x86_64-unknown-linux-gnu/bin")
    ok, log, secs = build_lane("cov")
    if not ok:
        print("coverage build failed:\n" + tail(log, 30))
        return 2
    prof = os.path.join(TARGET, "cov", "prof")
    shutil.rmtree(prof, ignore_errors=True)
    os.makedirs(prof)
    binp = binary_path("cov")
    per_prop = {}
    for prop in sorted(PLAN):
        q = [l for l in PLAN[prop]["quick"] if l["lane"] == "dbg"][0]
        env = lane_env("cov")
        env["LLVM_PROFILE_FILE"] = os.path.join(prof, prop + "-%p.profraw")
        for shard in range(2):
            out = os.path.join(prof, "%s-%d.json" % (prop, shard))
            cmd = [binp, prop, "--lane", "cov", "--level", "1", "--budget", str(max(1, q["budget"] // 2)), "--seed", "1", "--shard", str(shard),
                   "--nshards", str(max(2, q["nshards"])), "--out", out]
            subprocess.run(cmd, cwd=HARNESS, env=env, stdout=subprocess.PIPE, stderr=subprocess.PIPE, timeout=1800)
        raws = glob.glob(os.path.join(prof, prop + "-*.profraw"))
        pd = os.path.join(prof, prop + ".profdata")
        subprocess.run([os.path.join(tools, "llvm-profdata"), "merge", "-sparse"] + raws + ["-o", pd], check=True)
        per_prop[prop] = pd
    allpd = os.path.join(prof, "all.profdata")
    subprocess.run([os.path.join(tools, "llvm-profdata"), "merge", "-sparse"] + list(per_prop.values()) + ["-o", allpd], check=True)

    def lcov(pd):
        p = subprocess.run([os.path.join(tools, "llvm-cov"), "export", "-format=lcov", "-instr-profile=" + pd, binp], stdout=subprocess.PIPE, stderr=subprocess.PIPE, text=True)
        files, cur = {}, None
        for line in p.stdout.splitlines():
            if line.startswith("SF:"):
                cur = line[3:]
                files.setdefault(cur, {})
            elif line.startswith("DA:") and cur:
                ln, cnt = line[3:].split(",")[:2]
                files[cur][int(ln)] = files[cur].get(int(ln), 0) + int(cnt)
        return {f: d for f, d in files.items() if "/repo/src/" in f or f.startswith(REPO + "/src/")}

    total = lcov(allpd)
    summary, uncovered = {}, {}
    for f, d in sorted(total.items()):
        rel = f[f.index("/src/") + 1:]
        lines = len(d)
        hit = sum(1 for c in d.values() if c > 0)
        summary[rel] = dict(lines=lines, covered=hit, percent=round(100.0 * hit / max(1, lines), 1))
        miss = sorted(l for l, c in d.items() if c == 0)
        # compress into ranges
        ranges, start, prev = [], None, None
        for l in miss:
            if start is None:
                start = prev = l
            elif l == prev + 1:
                prev = l
            else:
                ranges.append((start, prev))
                start = prev = l
        if start is not None:
            ranges.append((start, prev))
        uncovered[rel] = ["%d-%d" % r if r[0] != r[1] else "%d" % r[0] for r in ranges]
    by_prop = {}
    for prop, pd in per_prop.items():
        d = lcov(pd)
        by_prop[prop] = {f[f.index("/src/") + 1:]: sum(1 for c in v.values() if c > 0) for f, v in d.items() if any(c > 0 for c in v.values())}
    tl = sum(v["lines"] for v in summary.values())
    tc = sum(v["covered"] for v in summary.values())
    doc = dict(what="line coverage of /repo/src by the quick-level workloads of all checks (dbg profile, 2 shards each, half budget)",
               total=dict(lines=tl, covered=tc, percent=round(100.0 * tc / max(1, tl), 1)), files=summary, uncovered_lines=uncovered,
               lines_hit_per_property=by_prop)
    with open(os.path.join(ROOT, "evidence", "coverage.json"), "w") as f:
        json.dump(doc, f, indent=1, sort_keys=True)
    for rel, v in summary.items():
        print("%-36s %4d/%4d lines  %5.1f%%   uncovered: %s" % (rel, v["covered"], v["lines"], v["percent"], ",".join(uncovered[rel][:12])))
    print("TOTAL %d/%d lines %.1f%%" % (tc, tl, 100.0 * tc / max(1, tl)))
    return 0


def setup():
    lanes = [l for l in LANES if "alias" not in LANES[l] and l != "cov"]
    ok_all = True
    with ThreadPoolExecutor(max_workers=4) as ex:
        for lane, (ok, log, secs) in zip(lanes, ex.map(build_lane, lanes)):
            print("setup: lane %-8s %s (%.0fs)" % (lane, "ok" if ok else "FAILED", secs))
            if not ok:
                print(tail(log, 30))
                ok_all = False
    return 0 if ok_all else 2


def replay(path):
    with open(path) as f:
        r = json.load(f)
    print("property %s signature %s (%d occurrences)" % (r["property"], r["signature"], r["occurrences"]))
    for inst in r["instances"]:
        print("--- lane %s" % inst.get("lane"))
        print("detail : %s" % inst.get("detail"))
        print("witness: %s" % inst.get("witness"))
        lane = inst.get("lane", "dbg")
        w = inst.get("witness", "")
        if r["property"] in ("C02", "C03") and all(c in "0123456789abcdef" for c in w) and w:
            ok, log, _ = build_lane(lane if lane in ("dbg", "rel") else "dbg")
            p = subprocess.run([binary_path(lane if lane in ("dbg", "rel") else "dbg"), "replay-datagram", w], cwd=HARNESS,
                               env=lane_env("dbg"), stdout=subprocess.PIPE, stderr=subprocess.STDOUT, text=True)
            print(p.stdout)
        elif inst.get("cmd") or w.startswith("command: "):
            cmd = inst.get("cmd") or w[len("command: "):]
            print("re-running shard: %s" % cmd)
            build_lane(lane)
            env = lane_env(lane)
            env["CLV_TRACE_CASES"] = "1"
            p = subprocess.run(cmd.split(" "), cwd=HARNESS, env=env, stdout=subprocess.PIPE, stderr=subprocess.STDOUT, text=True)
            print(tail(p.stdout, 40))
    return 0


def main():
    if len(sys.argv) < 2:
        print(__doc__)
        return 2
    cmd = sys.argv[1]
    if cmd == "setup":
        return setup()
    if cmd == "check":
        prop = sys.argv[2]
        tier = os.environ.get("VERIF_TIER", "quick")
        if "--tier" in sys.argv:
            tier = sys.argv[sys.argv.index("--tier") + 1]
        if tier not in ("quick", "thorough"):
            tier = "quick"
        seed = int(os.environ.get("VERIF_SEED", "1") or "1")
        return check(prop, tier, seed)
    if cmd == "replay":
        return replay(sys.argv[2])
    if cmd == "coverage":
        return coverage()
    if cmd == "selftest":
        import selftest
        return selftest.main(sys.argv[2:])
    print(__doc__)
    return 2


if __name__ == "__main__":
    sys.exit(main())
