#!/usr/bin/env python3
"""Refreshes the kill-matrix table at the end of DESIGN.md (section 8.4) from evidence/selftest.json."""
import json, os, re
ROOT = os.path.dirname(os.path.abspath(__file__))
st = json.load(open(os.path.join(ROOT, 'evidence', 'selftest.json')))
rows = []
for r in st['results']:
    what = r['what'][:110].replace('|', '/')
    if r.get('passes_repo_tests') is False:
        rows.append("| `%s` | %s | %s | not a valid mutant (fails the repo's own tests) | |" % (r['name'], r['property'], what))
    else:
        rows.append("| `%s` | %s | %s | **%s** | %s |" % (r['name'], r['property'], what, r['status'], "; ".join(r.get('signatures', [])[:2])[:90].replace('|', '/')))
text = open(os.path.join(ROOT, 'DESIGN.md')).read()
head = "| change | property | what it breaks | verdict | first signatures reported |\n|---|---|---|---|---|\n"
i = text.index(head)
text = text[:i] + head + "\n".join(rows) + "\n"
text = re.sub(r"Current matrix \(`evidence/selftest.json`\): \d+ entries, \d+ valid, \d+ killed\.",
              "Current matrix (`evidence/selftest.json`): %d entries, %d valid, %d killed." % (st['mutants'], st['valid'], st['killed']), text)
open(os.path.join(ROOT, 'DESIGN.md'), 'w').write(text)
print("matrix refreshed: %d rows" % len(rows))
