#!/bin/bash
# convenience: run every check at one tier; prints one summary line per property
tier=${1:-quick}
cd "$(dirname "$0")"
rc=0
for i in $(seq -w 1 20); do
  out=$(./run.py check C$i --tier $tier 2>&1)
  r=$?
  echo "$out" | tail -1
  if [ $r -ne 0 ]; then rc=1; echo "$out" | grep -E "^(VIOLATION|INCONCLUSIVE|KNOWN-FINDING|  signature)" | head -12; fi
done
exit $rc
