//! Detects which verification hooks exist in /repo's current tree, so that the monitors use
//! them when present and fall back to public-API observation when a candidate change removed
//! them.  Hooks only exist in builds with `--cfg coap_lite_verif`.

use std::path::Path;

fn main() {
    // the repository is wherever Cargo.toml's coap-lite path dependency points
    let manifest = std::env::var("CARGO_MANIFEST_DIR").unwrap();
    let toml = std::fs::read_to_string(Path::new(&manifest).join("Cargo.toml")).unwrap_or_default();
    let repo_path = toml
        .lines()
        .find(|l| l.trim_start().starts_with("coap-lite"))
        .and_then(|l| l.split("path = \"").nth(1))
        .and_then(|r| r.split('"').next())
        .unwrap_or("/repo")
        .to_string();
    let repo = if Path::new(&repo_path).is_absolute() { Path::new(&repo_path).to_path_buf() } else { Path::new(&manifest).join(&repo_path) };
    println!("cargo:rerun-if-changed=Cargo.toml");
    let guard_on = std::env::var("CARGO_CFG_COAP_LITE_VERIF").is_ok()
        || std::env::var("CARGO_ENCODED_RUSTFLAGS").map(|f| f.contains("coap_lite_verif")).unwrap_or(false)
        || std::env::var("RUSTFLAGS").map(|f| f.contains("coap_lite_verif")).unwrap_or(false);
    let obs = repo.join("src/observe.rs");
    let bh = repo.join("src/block_handler/mod.rs");
    println!("cargo:rerun-if-changed={}", obs.display());
    println!("cargo:rerun-if-changed={}", bh.display());
    println!("cargo:rerun-if-changed=build.rs");
    println!("cargo:rerun-if-env-changed=RUSTFLAGS");
    println!("cargo:rerun-if-env-changed=CARGO_ENCODED_RUSTFLAGS");
    if !guard_on {
        return;
    }
    if let Ok(s) = std::fs::read_to_string(&obs) {
        if s.contains("pub fn verif_unacknowledged(&self) -> u64") && s.contains("pub fn verif_pending_mid(&self) -> Option<u16>") && s.contains("cfg(coap_lite_verif)") {
            println!("cargo:rustc-cfg=has_observe_hook");
        }
    }
    if let Ok(s) = std::fs::read_to_string(&bh) {
        if s.contains("pub fn verif_peek(") && s.contains("cfg(coap_lite_verif)") {
            println!("cargo:rustc-cfg=has_block_hook");
        }
    }
}
