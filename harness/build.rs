//! Detects which verification hooks exist in /repo's current tree, so that the monitors use
//! them when present and fall back to public-API observation when a candidate change removed
//! them.  Hooks only exist in builds with `--cfg coap_lite_verif`.

use std::path::Path;

fn main() {
    let manifest = std::env::var("CARGO_MANIFEST_DIR").unwrap();
    let repo = Path::new(&manifest).join("../../repo");
    let guard_on = std::env::var("CARGO_CFG_COAP_LITE_VERIF").is_ok()
        || std::env::var("CARGO_ENCODED_RUSTFLAGS").map(|f| f.contains("coap_lite_verif")).unwrap_or(false)
        || std::env::var("RUSTFLAGS").map(|f| f.contains("coap_lite_verif")).unwrap_or(false);
    let obs = repo.join("src/observe.rs");
    let bh = repo.join("src/block_handler/mod.rs");
    println!("cargo:rerun-if-changed={}", obs.display());
    println!("cargo:rerun-if-changed={}", bh.display());
    println!("cargo:rerun-if-changed=build.rs");
    println!("cargo:rerun-if-env-changed=RUSTFLAGS");
    println!("cargo:rerun-if-env-changed=CARGO_ENCODED_RUSTFLAGS");
    if !guard_on {
        return;
    }
    if let Ok(s) = std::fs::read_to_string(&obs) {
        if s.contains("pub fn verif_unacknowledged(&self) -> u64") && s.contains("pub fn verif_pending_mid(&self) -> Option<u16>") && s.contains("cfg(coap_lite_verif)") {
            println!("cargo:rustc-cfg=has_observe_hook");
        }
    }
    if let Ok(s) = std::fs::read_to_string(&bh) {
        if s.contains("pub fn verif_peek(") && s.contains("cfg(coap_lite_verif)") {
            println!("cargo:rustc-cfg=has_block_hook");
        }
    }
}
