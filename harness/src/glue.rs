//! Conversions between the crate under test and the harness' own neutral types, using only
//! the public API of coap-lite.

use crate::refcodec::Msg;
use coap_lite::{CoapOption, MessageClass, MessageType, Packet};

pub fn mtype(t: u8) -> MessageType {
    match t & 3 {
        0 => MessageType::Confirmable,
        1 => MessageType::NonConfirmable,
        2 => MessageType::Acknowledgement,
        _ => MessageType::Reset,
    }
}

pub fn mtype_num(t: MessageType) -> u8 {
    match t {
        MessageType::Confirmable => 0,
        MessageType::NonConfirmable => 1,
        MessageType::Acknowledgement => 2,
        MessageType::Reset => 3,
    }
}

/// Read a packet back through its public getters.
pub fn packet_to_msg(p: &Packet) -> Msg {
    let mut options = Vec::new();
    for (n, list) in p.options() {
        for v in list.iter() {
            options.push((*n, v.clone()));
        }
    }
    Msg {
        ver: p.header.get_version(),
        typ: mtype_num(p.header.get_type()),
        token: p.get_token().to_vec(),
        code: u8::from(p.header.code),
        mid: p.header.message_id,
        options,
        payload: p.payload.clone(),
    }
}

/// Straightforward construction (no call-order games): header, token, options ascending, payload.
pub fn msg_to_packet(m: &Msg) -> Packet {
    let mut p = Packet::new();
    p.header.set_version(m.ver);
    p.header.set_type(mtype(m.typ));
    p.header.code = MessageClass::from(m.code);
    p.header.message_id = m.mid;
    p.set_token(m.token.clone());
    for (n, v) in &m.options {
        p.add_option(CoapOption::from(*n), v.clone());
    }
    p.payload = m.payload.clone();
    p
}

/// First difference between two messages, for violation details.
pub fn diff_msg(a: &Msg, b: &Msg) -> String {
    if a.ver != b.ver {
        return format!("version {} vs {}", a.ver, b.ver);
    }
    if a.typ != b.typ {
        return format!("type {} vs {}", a.typ, b.typ);
    }
    if a.token != b.token {
        return format!("token {} vs {}", crate::rng::hex(&a.token), crate::rng::hex(&b.token));
    }
    if a.code != b.code {
        return format!("code {:#x} vs {:#x}", a.code, b.code);
    }
    if a.mid != b.mid {
        return format!("mid {} vs {}", a.mid, b.mid);
    }
    if a.options.len() != b.options.len() {
        return format!("option count {} vs {}", a.options.len(), b.options.len());
    }
    for (i, (x, y)) in a.options.iter().zip(b.options.iter()).enumerate() {
        if x.0 != y.0 {
            return format!("option[{}] number {} vs {}", i, x.0, y.0);
        }
        if x.1 != y.1 {
            return format!("option[{}] (number {}) value len {} vs {}", i, x.0, x.1.len(), y.1.len());
        }
    }
    if a.payload != b.payload {
        return format!("payload len {} vs {}", a.payload.len(), b.payload.len());
    }
    "equal".into()
}
