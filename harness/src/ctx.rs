//! Per-shard run context.

use crate::report::Report;
use crate::rng::{mix, Rng};

pub struct Ctx {
    pub prop: String,
    pub lane: String,
    /// 0 = sanitizer-sized, 1 = quick, 2 = thorough
    pub level: u32,
    /// number of generated cases for the sampled parts of the workload (per shard)
    pub budget: u64,
    pub seed: u64,
    pub shard: u64,
    pub nshards: u64,
    pub rep: Report,
}

impl Ctx {
    /// does work item `i` of an enumerated space belong to this shard?
    #[inline]
    pub fn mine(&self, i: u64) -> bool {
        i % self.nshards == self.shard
    }
    /// a PRNG stream for a named sub-workload of this shard
    pub fn rng(&self, stream: u64) -> Rng {
        Rng::new(mix(&[self.seed, self.shard, stream]))
    }
    /// PRNG independent of the shard (for corpora every shard must agree on)
    pub fn rng_global(&self, stream: u64) -> Rng {
        Rng::new(mix(&[self.seed, 0xABCD, stream]))
    }
    pub fn quick(&self) -> bool {
        self.level <= 1
    }
    pub fn thorough(&self) -> bool {
        self.level >= 2
    }
    pub fn san(&self) -> bool {
        self.level == 0
    }
}


// ---- message contexts for accessor tests --------------------------------------------------
// What an option accessor stores and returns must not depend on the rest of the message (its
// type, code class, message id, token, payload).  `context_packet()` hands out packets that
// cycle through those contexts; `last_context()` names the most recent one for witnesses.
thread_local! {
    static CTX_COUNTER: std::cell::Cell<u64> = const { std::cell::Cell::new(0) };
    static CTX_LAST: std::cell::RefCell<String> = const { std::cell::RefCell::new(String::new()) };
}

pub const CONTEXT_CODES: [u8; 12] = [0x01, 0x45, 0x00, 0x02, 0x44, 0x5f, 0x84, 0xa0, 0x03, 0x05, 0x20, 0xe1];

pub fn context_packet() -> coap_lite::Packet {
    use coap_lite::{MessageClass, MessageType, Packet};
    let k = CTX_COUNTER.with(|c| {
        let v = c.get();
        c.set(v + 1);
        v
    });
    let mut p = Packet::new();
    if k % 5 == 0 {
        // every fifth packet is the plain default (a fresh GET request)
        CTX_LAST.with(|l| *l.borrow_mut() = "Packet::new()".into());
        return p;
    }
    let code = CONTEXT_CODES[(k / 5) as usize % CONTEXT_CODES.len()];
    let ty = [MessageType::Confirmable, MessageType::NonConfirmable, MessageType::Acknowledgement, MessageType::Reset][(k / 7) as usize % 4];
    let tkl = (k / 3) as usize % 9;
    p.header.code = MessageClass::from(code);
    p.header.set_type(ty);
    p.header.message_id = (k as u16).wrapping_mul(2659);
    p.set_token((0..tkl as u8).map(|i| i.wrapping_mul(37) ^ 0x5a).collect());
    if k % 4 == 1 {
        p.payload = vec![0xff, 0x00, 0xc0];
    }
    CTX_LAST.with(|l| *l.borrow_mut() = format!("packet context: code byte 0x{:02x}, {:?}, token of {} bytes{}", code, ty, tkl, if k % 4 == 1 { ", 3-byte payload" } else { "" }));
    p
}

pub fn last_context() -> String {
    CTX_LAST.with(|l| l.borrow().clone())
}
