//! Per-shard run context.

use crate::report::Report;
use crate::rng::{mix, Rng};

pub struct Ctx {
    pub prop: String,
    pub lane: String,
    /// 0 = sanitizer-sized, 1 = quick, 2 = thorough
    pub level: u32,
    /// number of generated cases for the sampled parts of the workload (per shard)
    pub budget: u64,
    pub seed: u64,
    pub shard: u64,
    pub nshards: u64,
    pub rep: Report,
}

impl Ctx {
    /// does work item `i` of an enumerated space belong to this shard?
    #[inline]
    pub fn mine(&self, i: u64) -> bool {
        i % self.nshards == self.shard
    }
    /// a PRNG stream for a named sub-workload of this shard
    pub fn rng(&self, stream: u64) -> Rng {
        Rng::new(mix(&[self.seed, self.shard, stream]))
    }
    /// PRNG independent of the shard (for corpora every shard must agree on)
    pub fn rng_global(&self, stream: u64) -> Rng {
        Rng::new(mix(&[self.seed, 0xABCD, stream]))
    }
    pub fn quick(&self) -> bool {
        self.level <= 1
    }
    pub fn thorough(&self) -> bool {
        self.level >= 2
    }
    pub fn san(&self) -> bool {
        self.level == 0
    }
}
