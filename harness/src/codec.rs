//! Monitors for the message codec: C01 (encode = RFC image, decodes back), C02 (accepted
//! datagrams re-encode to identical bytes), C03 (parser total, accepts/rejects per RFC),
//! C04 (size limit exact, unsafe copies in bounds).

use crate::ctx::Ctx;
use crate::glue::{diff_msg, msg_to_packet, mtype, packet_to_msg};
use crate::panicwatch::{guard, set_case, set_case_str};
use crate::refcodec::{self, Msg, Verdict};
use crate::report::Report;
use crate::rng::{fnv, hex, hex_short, mix, Rng};
use coap_lite::error::MessageError;
use coap_lite::{CoapOption, MessageClass, Packet};
use std::collections::{HashMap, LinkedList};

// ---------------------------------------------------------------------------------------
// message generator (boundary directed)

const DELTAS: &[usize] = &[
    0, 0, 0, 1, 1, 2, 3, 5, 11, 12, 13, 14, 15, 20, 100, 254, 255, 256, 267, 268, 269, 270, 271, 300, 524, 525, 1000,
    4000, 30000, 65000,
];
const LENS: &[usize] = &[
    0, 0, 1, 1, 2, 3, 4, 8, 11, 12, 13, 14, 15, 40, 100, 255, 256, 267, 268, 269, 270, 271, 300, 600, 1000,
];
const BIGLENS: &[usize] = &[5000, 20000, 65534, 65535, 65536, 65803, 65804];
const FIRSTS: &[usize] = &[0, 1, 3, 4, 11, 12, 13, 14, 15, 23, 27, 60, 258, 268, 269, 270, 271, 2048, 60000, 65535];
const NOPTS: &[usize] = &[0, 0, 1, 1, 1, 2, 2, 3, 3, 4, 6, 10, 25];

pub struct GenCfg {
    /// allow values of tens of kilobytes (rare)
    pub big: bool,
    /// cap on total bytes in small mode (keeps Miri workloads cheap)
    pub small: bool,
}

pub fn gen_msg(r: &mut Rng, cfg: &GenCfg) -> Msg {
    let ver = if r.chance(3, 4) { 1 } else { r.below(4) as u8 };
    let typ = r.below(4) as u8;
    let tkl = if r.chance(1, 4) { *r.pick(&[0usize, 8]) } else { r.usize_below(9) };
    let token = r.bytes(tkl);
    let code = match r.below(10) {
        0 => 0,
        1..=3 => *r.pick(&[1u8, 2, 3, 4, 0x45, 0x44, 0x5f, 0x84, 0xa0]),
        _ => r.byte(),
    };
    let mid = match r.below(6) {
        0 => 0,
        1 => 0xffff,
        2 => *r.pick(&[0x00ffu16, 0x0100, 0xff00, 1]),
        _ => r.next_u64() as u16,
    };
    let nopts = if cfg.small { r.usize_below(5) } else { *r.pick(NOPTS) };
    let mut options: Vec<(u16, Vec<u8>)> = Vec::new();
    let mut prev: usize = 0;
    for i in 0..nopts {
        let mut n = if i == 0 {
            if r.chance(2, 3) {
                *r.pick(FIRSTS)
            } else {
                r.usize_below(64)
            }
        } else {
            prev + *r.pick(DELTAS)
        };
        if n > 65535 {
            n = if r.bool() { 65535 } else { prev };
        }
        let mut len = *r.pick(LENS);
        if cfg.small {
            if len > 300 {
                len = *r.pick(&[13usize, 14, 268, 269, 270]);
            }
        } else if cfg.big && r.chance(1, 150) {
            len = *r.pick(BIGLENS);
        }
        let v = if r.chance(1, 8) { vec![r.byte(); len] } else { r.bytes(len) };
        options.push((n as u16, v));
        prev = n;
    }
    if !options.iter().any(|o| o.0 == 12 || o.0 == 6) && r.chance(1, 4) {
        // a Content-Format and/or Observe option with a value the typed setters can produce
        if r.bool() {
            let id = *r.pick(&[0usize, 40, 42, 50, 60, 110, 256, 432, 10000, 11542, 30000]);
            options.push((12, crate::optval::min_be(id as u64)));
        }
        if r.bool() {
            options.push((6, crate::optval::min_be(r.next_u64() >> r.range(32, 63))));
        }
        options.sort_by_key(|o| o.0);
    }
    let plen = match r.below(8) {
        0 | 1 => 0,
        2 => 1,
        3 | 4 => r.usize_below(20),
        5 => r.usize_below(300),
        6 => {
            if cfg.small {
                r.usize_below(40)
            } else {
                r.usize_below(1400)
            }
        }
        _ => r.usize_below(64),
    };
    let mut payload = r.bytes(plen);
    if plen > 0 && r.chance(1, 6) {
        payload[0] = 0xff; // payload that itself starts with a marker byte
    }
    Msg { ver, typ, token, code, mid, options, payload }
}

fn cls(v: usize) -> u8 {
    match v {
        0 => 0,
        1..=11 => 1,
        12 => 2,
        13 => 3,
        14..=267 => 4,
        268 => 5,
        269 => 6,
        270..=65534 => 7,
        65535 => 8,
        _ => 9,
    }
}

/// structural signature of a message: extension classes of every option, token length,
/// marker, version, empty-code — "distinct non-trivial" is counted over these.
pub fn msg_signature(m: &Msg) -> u64 {
    let mut v: Vec<u8> = vec![m.ver, m.token.len() as u8, (!m.payload.is_empty()) as u8, (m.code == 0) as u8];
    let mut prev = 0usize;
    for (n, val) in &m.options {
        v.push(cls(*n as usize - prev));
        v.push(cls(val.len()));
        prev = *n as usize;
    }
    fnv(&v)
}

pub fn msg_is_nontrivial(m: &Msg) -> bool {
    let mut prev = 0usize;
    for (n, val) in &m.options {
        if *n as usize - prev >= 13 || val.len() >= 13 {
            return true;
        }
        prev = *n as usize;
    }
    m.options.len() >= 2 || m.ver != 1
}

// ---------------------------------------------------------------------------------------
// build a Packet through the public API under a randomised call order

#[derive(Clone, Debug)]
enum Op {
    Ver,
    Typ,
    CodeDirect,
    CodeString,
    Mid,
    Token,
    JunkToken,
    Payload,
    Add(usize),           // index into m.options
    Set(u16),             // set_option(number, full list)
    JunkAdd(u16, usize),  // add junk value of len
    SetCf(usize),         // set_content_format(value of m.options[i]) - replaces whatever is there
    SetObs(usize),
    ReusedWithFreshHeader,        // set_observe_value(value of m.options[i])
    JunkPadded(usize),    // add the value of m.options[i] with a leading zero byte (same number, non-canonical)
    Clear(u16),
    ClearAll,
}

pub fn build_packet(m: &Msg, r: &mut Rng) -> (Packet, String) {
    // option op sequence
    let mut ops: Vec<Op> = Vec::new();
    let strategy = r.below(6);
    let numbers: Vec<u16> = {
        let mut ns: Vec<u16> = m.options.iter().map(|o| o.0).collect();
        ns.dedup();
        ns
    };
    let interleave = |r: &mut Rng, ops: &mut Vec<Op>| {
        // random interleaving of per-number queues, per-number order preserved
        let mut queues: Vec<Vec<usize>> = Vec::new();
        let mut last: Option<u16> = None;
        for (i, (n, _)) in m.options.iter().enumerate() {
            if last == Some(*n) {
                queues.last_mut().unwrap().push(i);
            } else {
                queues.push(vec![i]);
                last = Some(*n);
            }
        }
        for q in queues.iter_mut() {
            q.reverse();
        }
        while !queues.is_empty() {
            let k = r.usize_below(queues.len());
            let i = queues[k].pop().unwrap();
            ops.push(Op::Add(i));
            if queues[k].is_empty() {
                queues.swap_remove(k);
            }
        }
    };
    match strategy {
        0 => {
            for i in 0..m.options.len() {
                ops.push(Op::Add(i));
            }
        }
        1 => interleave(r, &mut ops),
        2 => {
            let mut ns = numbers.clone();
            r.shuffle(&mut ns);
            for n in ns {
                ops.push(Op::Set(n));
            }
        }
        3 => {
            // junk, clear everything, rebuild
            for _ in 0..r.urange(1, 4) {
                let n = if !numbers.is_empty() && r.bool() { *r.pick(&numbers) } else { r.below(70000).min(65535) as u16 };
                ops.push(Op::JunkAdd(n, r.usize_below(20)));
            }
            ops.push(Op::ClearAll);
            interleave(r, &mut ops);
        }
        4 => {
            // junk on some numbers (in M and not in M), clear those numbers, then add
            let mut junked = Vec::new();
            for _ in 0..r.urange(1, 4) {
                let n = if !numbers.is_empty() && r.chance(2, 3) { *r.pick(&numbers) } else { r.below(300) as u16 };
                ops.push(Op::JunkAdd(n, r.usize_below(300)));
                junked.push(n);
            }
            r.shuffle(&mut junked);
            for n in junked {
                ops.push(Op::Clear(n));
            }
            interleave(r, &mut ops);
        }
        _ => {
            // mix: set_option for some numbers first (with junk), then set again with the truth
            for n in numbers.iter() {
                if r.bool() {
                    ops.push(Op::JunkAdd(*n, 3));
                }
            }
            let mut ns = numbers.clone();
            r.shuffle(&mut ns);
            for n in ns {
                ops.push(Op::Set(n));
            }
        }
    }
    // typed setters: a single Content-Format / Observe value may also be stored through the
    // convenience setter, which must replace whatever (junk) values the option holds at that time
    {
        use std::convert::TryFrom;
        let mut out: Vec<Op> = Vec::with_capacity(ops.len() + 4);
        for op in ops.into_iter() {
            if let Op::Add(i) = op {
                let (n, v) = &m.options[i];
                let single = m.options.iter().filter(|o| o.0 == *n).count() == 1;
                let minimal = v.first() != Some(&0);
                if single && minimal && *n == 12 && v.len() <= 2 && r.bool() {
                    let id = v.iter().fold(0usize, |a, b| a << 8 | *b as usize);
                    if coap_lite::ContentFormat::try_from(id).is_ok() {
                        if v.len() < 2 && r.bool() {
                            out.push(Op::JunkPadded(i));
                        }
                        for _ in 0..r.usize_below(3) {
                            out.push(Op::JunkAdd(12, r.usize_below(3)));
                        }
                        out.push(Op::SetCf(i));
                        continue;
                    }
                }
                if single && minimal && *n == 6 && v.len() <= 4 && r.bool() {
                    if v.len() < 4 && r.bool() {
                        out.push(Op::JunkPadded(i));
                    }
                    for _ in 0..r.usize_below(3) {
                        out.push(Op::JunkAdd(6, r.usize_below(4)));
                    }
                    out.push(Op::SetObs(i));
                    continue;
                }
                out.push(Op::Add(i));
            } else {
                out.push(op);
            }
        }
        ops = out;
    }
    // merge header steps at random positions
    let mut hdr = vec![Op::Ver, Op::Typ, if r.bool() { Op::CodeDirect } else { Op::CodeString }, Op::Mid, Op::Token, Op::Payload];
    r.shuffle(&mut hdr);
    if r.chance(1, 3) {
        hdr.insert(0, Op::JunkToken);
    }
    if r.chance(1, 4) {
        // a packet object that is re-used: it held a token of the same length as the one to come, then
        // its header was re-initialised (or taken over from another message) before everything is set
        hdr.insert(0, Op::ReusedWithFreshHeader);
    }
    let mut merged: Vec<Op> = Vec::with_capacity(ops.len() + hdr.len());
    let mut oi = ops.into_iter().peekable();
    let mut hi = hdr.into_iter().peekable();
    loop {
        let take_hdr = match (oi.peek().is_some(), hi.peek().is_some()) {
            (false, false) => break,
            (true, false) => false,
            (false, true) => true,
            (true, true) => r.chance(1, 3),
        };
        if take_hdr {
            merged.push(hi.next().unwrap());
        } else {
            merged.push(oi.next().unwrap());
        }
    }

    let mut p = Packet::new();
    let mut desc = String::new();
    for op in &merged {
        match op {
            Op::Ver => {
                p.header.set_version(m.ver);
                desc.push_str("ver,");
            }
            Op::Typ => {
                p.header.set_type(mtype(m.typ));
                desc.push_str("typ,");
            }
            Op::CodeDirect => {
                p.header.code = MessageClass::from(m.code);
                desc.push_str("code,");
            }
            Op::CodeString => {
                p.header.set_code(&format!("{}.{:02}", m.code >> 5, m.code & 0x1f));
                desc.push_str("codestr,");
            }
            Op::Mid => {
                p.header.message_id = m.mid;
                desc.push_str("mid,");
            }
            Op::Token => {
                p.set_token(m.token.clone());
                desc.push_str("tok,");
            }
            Op::ReusedWithFreshHeader => {
                p.set_token(vec![0xDD; m.token.len()]);
                if r.bool() {
                    p.header = coap_lite::Header::new();
                } else {
                    let mut other = Packet::new();
                    other.set_token(vec![1; (m.token.len() + 3) % 9]);
                    other.header.message_id = 0x7777;
                    p.header = other.header.clone();
                }
                desc.push_str("token-of-same-length-then-header-replaced,");
            }
            Op::JunkToken => {
                p.set_token(vec![0xEE; 8 - m.token.len().min(8)]);
                desc.push_str("junktok,");
            }
            Op::Payload => {
                p.payload = m.payload.clone();
                desc.push_str("pl,");
            }
            Op::Add(i) => {
                let (n, v) = &m.options[*i];
                match r.below(8) {
                    0 => {
                        use coap_message_0_3::MinimalWritableMessage;
                        <Packet as MinimalWritableMessage>::add_option(&mut p, CoapOption::from(*n), v).expect("infallible");
                        desc.push_str(&format!("add{}(cm0.3),", n));
                    }
                    1 => {
                        use coap_message::MinimalWritableMessage;
                        <Packet as MinimalWritableMessage>::add_option(&mut p, CoapOption::from(*n), v);
                        desc.push_str(&format!("add{}(cm0.2),", n));
                    }
                    _ => {
                        p.add_option(CoapOption::from(*n), v.clone());
                        desc.push_str(&format!("add{},", n));
                    }
                }
            }
            Op::Set(n) => {
                let list: LinkedList<Vec<u8>> = m.options.iter().filter(|o| o.0 == *n).map(|o| o.1.clone()).collect();
                p.set_option(CoapOption::from(*n), list);
                desc.push_str(&format!("set{},", n));
            }
            Op::JunkAdd(n, l) => {
                p.add_option(CoapOption::from(*n), vec![0xAB; *l]);
                desc.push_str(&format!("junk{},", n));
            }
            Op::JunkPadded(i) => {
                let (n, v) = &m.options[*i];
                let mut padded = vec![0u8];
                padded.extend_from_slice(v);
                p.add_option(CoapOption::from(*n), padded);
                desc.push_str(&format!("padded{},", n));
            }
            Op::SetCf(i) => {
                use std::convert::TryFrom;
                let id = m.options[*i].1.iter().fold(0usize, |a, b| a << 8 | *b as usize);
                p.set_content_format(coap_lite::ContentFormat::try_from(id).expect("named content format"));
                desc.push_str("set_content_format,");
            }
            Op::SetObs(i) => {
                let v = m.options[*i].1.iter().fold(0u32, |a, b| a << 8 | *b as u32);
                p.set_observe_value(v);
                desc.push_str("set_observe_value,");
            }
            Op::Clear(n) => {
                p.clear_option(CoapOption::from(*n));
                desc.push_str(&format!("clr{},", n));
            }
            Op::ClearAll => {
                p.clear_all_options();
                desc.push_str("clrall,");
            }
        }
    }
    (p, desc)
}

pub fn expected_max_size() -> usize {
    if cfg!(feature = "udp") {
        64_000
    } else {
        1280
    }
}

// ---------------------------------------------------------------------------------------
// C01

pub fn run_c01(ctx: &mut Ctx) {
    let mut r = ctx.rng(1);
    let cfg = GenCfg { big: !ctx.san(), small: ctx.san() };
    let maxsz = expected_max_size();
    for case in 0..ctx.budget {
        let m = if case < 8 { directed_c01(case as usize) } else { gen_msg(&mut r, &cfg) };
        let (p, order) = build_packet(&m, &mut r);
        c01_one(&mut ctx.rep, &m, &p, &order, maxsz, ctx.seed, ctx.shard, case);
    }
    ctx.rep.floor("msgs_with_ext_delta_or_len", (ctx.budget / 10).min(50).max(1));
    ctx.rep.floor("decoded_equal", (ctx.budget / 2).max(1));
    if ctx.budget >= 500 {
        ctx.rep.floor("built_with_typed_setter_over_junk_values", 1);
    }
}

fn directed_c01(i: usize) -> Msg {
    let base = Msg { ver: 1, typ: 0, token: vec![], code: 1, mid: 0, options: vec![], payload: vec![] };
    match i {
        0 => Msg { options: vec![(258, vec![2])], ..base }, // No-Response as the first option
        1 => Msg { options: vec![(258, vec![]), (258, vec![1, 2, 3])], ..base },
        2 => Msg { options: vec![(268, vec![7; 13])], ..base },
        3 => Msg { options: vec![(269, vec![7; 269])], ..base },
        4 => Msg { options: vec![(13, vec![7; 268]), (282, vec![1])], payload: vec![0xff], ..base },
        5 => Msg { options: vec![(65535, vec![])], token: vec![1, 2, 3, 4, 5, 6, 7, 8], ..base },
        6 => Msg { options: vec![(11, b"a".to_vec()), (11, b"b".to_vec()), (11, vec![]), (12, vec![]), (60, vec![1, 0])], ..base },
        _ => Msg { ver: 3, typ: 3, code: 0xff, mid: 0xffff, options: vec![(0, vec![]), (0, vec![0])], payload: vec![0], ..base },
    }
}

#[allow(clippy::too_many_arguments)]
fn c01_one(rep: &mut Report, m: &Msg, p: &Packet, order: &str, maxsz: usize, seed: u64, shard: u64, case: u64) {
    rep.eval();
    set_case_str(&format!("C01 seed={} shard={} case={} {}", seed, shard, case, m.describe()));
    let witness = || format!("msg: {} | api order: {} | seed={} shard={} case={}", m.describe(), order, seed, shard, case);
    let reference = match refcodec::encode(m) {
        Some(b) => b,
        None => return,
    };
    if msg_is_nontrivial(m) {
        rep.distinct(msg_signature(m));
    }
    {
        let mut prev = 0usize;
        let mut ext = false;
        for (n, v) in &m.options {
            let d = *n as usize - prev;
            rep.bucket(&format!("delta_class_{}__len_class_{}", cls(d).min(7), cls(v.len()).min(7)));
            ext |= d >= 13 || v.len() >= 13;
            prev = *n as usize;
        }
        if ext {
            rep.count("msgs_with_ext_delta_or_len");
        }
        rep.bucket(&format!("tkl_{}", m.token.len()));
        rep.bucket(&format!("version_{}", m.ver));
        if !m.payload.is_empty() {
            rep.bucket("has_payload");
        }
    }
    // the API stored what was set
    let back = packet_to_msg(p);
    if &back != m {
        rep.violation("api-readback", format!("getters differ from what was set: {}", diff_msg(&back, m)), witness());
        return;
    }
    // encode
    let enc = match guard(|| p.to_bytes_unlimited()) {
        Err(pr) => {
            rep.violation(&format!("encode-{}", pr.sig()), pr.text(), witness());
            return;
        }
        Ok(Err(e)) => {
            rep.violation("encode-refused", format!("to_bytes_unlimited returned {:?} for an encodable message", e), witness());
            return;
        }
        Ok(Ok(b)) => b,
    };
    if enc != reference {
        let at = enc.iter().zip(reference.iter()).position(|(a, b)| a != b).unwrap_or(enc.len().min(reference.len()));
        rep.violation(
            "encode-differs-from-rfc-image",
            format!("first difference at byte {} (got len {}, want len {}): got {} want {}", at, enc.len(), reference.len(), hex_short(&enc), hex_short(&reference)),
            witness(),
        );
        return;
    }
    rep.count("encoded_equal_reference");
    if order.contains("set_content_format") || order.contains("set_observe_value") {
        rep.count("built_with_typed_setter_over_junk_values");
    }
    // limited variants agree
    let w = reference.len();
    match guard(|| p.to_bytes_with_limit(w)) {
        Ok(Ok(b)) if b == reference => {}
        other => {
            rep.violation("encode-with-exact-limit", format!("to_bytes_with_limit({}) gave {:?}", w, other.map(|r| r.map(|b| b.len()))), witness());
            return;
        }
    }
    if w <= maxsz {
        match guard(|| p.to_bytes()) {
            Ok(Ok(b)) if b == reference => {}
            other => {
                rep.violation("encode-default-limit", format!("to_bytes() gave {:?} for a {}-byte message", other.map(|r| r.map(|b| b.len())), w), witness());
                return;
            }
        }
    }
    // decode what was encoded
    let dec = match guard(|| Packet::from_bytes(&enc)) {
        Err(pr) => {
            rep.violation(&format!("decode-{}", pr.sig()), format!("{} on the crate's own encoding {}", pr.text(), hex_short(&enc)), witness());
            return;
        }
        Ok(Err(e)) => {
            rep.violation("decode-rejects-own-encoding", format!("from_bytes returned {:?} on {}", e, hex_short(&enc)), witness());
            return;
        }
        Ok(Ok(q)) => q,
    };
    let mut want = m.clone();
    if want.code == 0 {
        want.payload.clear(); // a 0.00 message is sent without payload
    }
    let got = packet_to_msg(&dec);
    if got != want {
        rep.violation("decode-differs", format!("decoded message differs: {} (wire {})", diff_msg(&got, &want), hex_short(&enc)), witness());
        return;
    }
    if dec.header.get_token_length() as usize != want.token.len() {
        rep.violation("decode-token-length-field", format!("TKL {} vs token {}", dec.header.get_token_length(), want.token.len()), witness());
        return;
    }
    rep.count("decoded_equal");
    rep.sample_every(997, || format!("{} | order {} | wire {}", m.describe(), order, hex_short(&enc)));
}

// ---------------------------------------------------------------------------------------
// datagram corpus shared by C02 and C03

pub struct CorpusCfg {
    pub level: u32,
    pub budget: u64,
    pub seed: u64,
    pub shard: u64,
    pub nshards: u64,
}

impl CorpusCfg {
    #[inline]
    fn mine(&self, i: u64) -> bool {
        i % self.nshards == self.shard
    }
}

const STRUCT_BYTES: &[u8] = &[
    0x00, 0x01, 0x0c, 0x0d, 0x0e, 0x0f, 0x10, 0x1d, 0xc0, 0xd0, 0xd1, 0xdd, 0xde, 0xe0, 0xed, 0xee, 0xf0, 0xfe, 0xff, 0xf2, 0xf3,
];
const SUBST_BYTES: &[u8] = &[0x00, 0x01, 0x0c, 0x0d, 0x0e, 0x0f, 0x10, 0xd0, 0xe0, 0xf0, 0xff, 0xdd, 0xee, 0xd1, 0x1d, 0xfe, 0x80];

pub fn corpus<F: FnMut(&'static str, &[u8])>(c: &CorpusCfg, f: &mut F) {
    fam_directed(c, f);
    fam_numbers(c, f);
    fam_suffixes(c, f);
    fam_ext(c, f);
    fam_mutated(c, f);
    fam_random(c, f);
    fam_semantic(c, f);
    fam_heavy(c, f);
    fam_max_deltas(c, f);
    fam_length_twins(c, f);
}

/// neighbouring option instances whose value lengths differ by exactly 2^16 (or 2^8): whatever an
/// encoder remembers about "the previous header" must not be keyed on truncated lengths
fn fam_length_twins<F: FnMut(&'static str, &[u8])>(c: &CorpusCfg, f: &mut F) {
    if c.level == 0 || !c.mine(5) {
        return;
    }
    for (a, b) in [(5usize, 65541usize), (0, 65536), (200, 65736), (268, 65804), (13, 269), (12, 268), (1, 257), (300, 556)] {
        for delta_second in [0u16, 1, 2, 13] {
            for swap in [false, true] {
                let (l1, l2) = if swap { (b, a) } else { (a, b) };
                let m = Msg { ver: 1, typ: 1, token: vec![9], code: 2, mid: 5, options: vec![(1, vec![0x31; l1]), (1 + delta_second, vec![0x32; l2]), (20, vec![7])], payload: vec![1] };
                if let Some(bytes) = refcodec::encode(&m) {
                    f("length-twins", &bytes);
                }
            }
        }
    }
}

/// very many options that each carry the largest two-byte extended delta (the running number passes
/// 65535 at the second one and 2^32 after 65538 of them)
fn fam_max_deltas<F: FnMut(&'static str, &[u8])>(c: &CorpusCfg, f: &mut F) {
    if c.level == 0 || !c.mine(3) {
        return;
    }
    for n in [2usize, 3, 257, 65537, 65538, 65540, 131077] {
        for first in [[0xe0u8, 0xfe, 0xf2], [0xe0, 0x00, 0x00], [0xe0, 0xfe, 0xf1]] {
            let mut b: Vec<u8> = vec![0x40, 0x01, 0x00, 0x07];
            b.extend_from_slice(&first);
            for _ in 1..n {
                b.extend_from_slice(&[0xe0, 0xfe, 0xf2]);
            }
            f("many-max-delta-options", &b);
            b.extend_from_slice(&[0xff, 0x01]);
            f("many-max-delta-options", &b);
        }
    }
}

/// option values with a meaning to layers ABOVE the section-3 framing (path traversal, empty
/// and oversized segments, out-of-range integers, reserved block sizes ...).  The framing does
/// not care: every one of these datagrams is well formed and has to come back field by field.
fn fam_semantic<F: FnMut(&'static str, &[u8])>(c: &CorpusCfg, f: &mut F) {
    const NUMBERS: &[u16] = &[1, 3, 4, 5, 6, 7, 8, 9, 11, 12, 14, 15, 17, 20, 23, 27, 28, 35, 39, 60, 252, 258, 2049, 2053, 65000];
    const VALUES: &[&[u8]] = &[
        b"", b".", b"..", b"...", b"/", b"//", b"../", b"a/b", b"%2e%2e", b"%2E%2E", b"\0", b"\xff", b"\xff\xff", b"\xc0\xaf", b"\xed\xa0\x80", b"\xf4\x90\x80\x80",
        b"*", b"?", b"#", b"coap://h", b"[::1]", b"a=b&c", b"\x00\x00", b"\x00\x01", b"\x07", b"\x0f", b"\x17", b"\xff\xff\xff\xff", b"\xff\xff\xff\xff\xff", b"\x01\x00\x00\x00\x00\x00\x00\x00\x00",
        b"\r\n", b" ", b"\x7f", b"0", b"00", b"-1",
    ];
    let mut i = 0u64;
    for (ni, &n) in NUMBERS.iter().enumerate() {
        for (vi, v) in VALUES.iter().enumerate() {
            i += 1;
            if !c.mine(i) || (c.level == 0 && (ni + vi) % 5 != 0) {
                continue;
            }
            // alone; between two ordinary segments of the same number; next to a neighbour number
            for shape in 0..3 {
                let mut m = Msg { ver: 1, typ: (i % 4) as u8, token: vec![0xab; (i % 9) as usize], code: [1u8, 2, 0x45, 3][(i % 4) as usize], mid: 0x1234, options: vec![], payload: vec![] };
                match shape {
                    0 => m.options.push((n, v.to_vec())),
                    1 => {
                        m.options.push((n, b"a".to_vec()));
                        m.options.push((n, v.to_vec()));
                        m.options.push((n, b"b".to_vec()));
                    }
                    _ => {
                        m.options.push((n, v.to_vec()));
                        m.options.push((n + 1, v.to_vec()));
                        m.payload = v.to_vec();
                    }
                }
                if let Some(b) = refcodec::encode(&m) {
                    f("semantic-values", &b);
                }
            }
        }
    }
}

/// one option number repeated with values that are each legal but together exceed every 16-bit
/// quantity of the format (65535, 65535+269) - and the same volume spread over different numbers
fn fam_heavy<F: FnMut(&'static str, &[u8])>(c: &CorpusCfg, f: &mut F) {
    if c.level == 0 {
        return;
    }
    let plans: &[(usize, usize)] = &[(2, 32902), (2, 32903), (2, 33000), (3, 21935), (300, 255), (5, 65804), (66, 1000), (2, 65535), (260, 268)];
    for (pi, &(k, vlen)) in plans.iter().enumerate() {
        if !c.mine(pi as u64) {
            continue;
        }
        for (number, spread) in [(11u16, false), (0, false), (65000, false), (11, true)] {
            let mut m = Msg { ver: 1, typ: 0, token: vec![1, 2], code: 2, mid: 77, options: vec![], payload: vec![9, 9] };
            for j in 0..k {
                let n = if spread { number + (j as u16) } else { number };
                m.options.push((n, vec![(j as u8) ^ 0x5a; vlen]));
            }
            if let Some(b) = refcodec::encode(&m) {
                f("heavy-repeated-option", &b);
            }
        }
    }
}

/// every option number 0..=65535 carried by a well-formed datagram: as the only option, and as the
/// second of two options whose deltas add up to it
fn fam_numbers<F: FnMut(&'static str, &[u8])>(c: &CorpusCfg, f: &mut F) {
    let mut buf: Vec<u8> = Vec::with_capacity(16);
    let put = |buf: &mut Vec<u8>, delta: usize, val: &[u8]| {
        let nib = |v: usize| if v < 13 { v as u8 } else if v < 269 { 13 } else { 14 };
        buf.push(nib(delta) << 4 | nib(val.len()));
        if delta >= 269 {
            buf.push(((delta - 269) >> 8) as u8);
            buf.push((delta - 269) as u8);
        } else if delta >= 13 {
            buf.push((delta - 13) as u8);
        }
        buf.extend_from_slice(val);
    };
    for n in 0..=65535usize {
        if !c.mine(n as u64) || (c.level == 0 && (n / c.nshards as usize) % 157 != 0) {
            continue;
        }
        buf.clear();
        buf.extend_from_slice(&[0x40, 0x02, 0x00, 0x07]);
        put(&mut buf, n, &[(n & 0xff) as u8]);
        f("number", &buf);
        buf.clear();
        buf.extend_from_slice(&[0x61, 0x45, 0xab, 0xcd, 0x99]);
        put(&mut buf, n / 2, &[]);
        put(&mut buf, n - n / 2, &[1, 2]);
        buf.extend_from_slice(&[0xff, 0x00]);
        f("number", &buf);
    }
}

fn fam_suffixes<F: FnMut(&'static str, &[u8])>(c: &CorpusCfg, f: &mut F) {
    let headers: [&[u8]; 6] = [
        &[0x40, 0x01, 0x12, 0x34],
        &[0x51, 0x02, 0x00, 0x01, 0xAA],
        &[0x68, 0x45, 0xff, 0xff, 1, 2, 3, 4, 5, 6, 7, 8],
        &[0x40, 0x00, 0x00, 0x00],
        &[0x00, 0x01, 0x00, 0x00],
        &[0x70, 0x84, 0x09, 0x09],
    ];
    let maxlen = match c.level {
        0 => 1,
        1 => 2,
        _ => 3,
    };
    let mut buf: Vec<u8> = Vec::with_capacity(32);
    let mut idx: u64 = 0;
    for len in 0..=maxlen {
        let n: u64 = 1u64 << (8 * len);
        for v in 0..n {
            idx += 1;
            if !c.mine(idx) || (c.level == 0 && idx % 5 != 0) {
                continue;
            }
            for h in headers.iter() {
                buf.clear();
                buf.extend_from_slice(h);
                for k in (0..len).rev() {
                    buf.push((v >> (8 * k)) as u8);
                }
                f("suffix", &buf);
            }
        }
    }
}

fn sweep2(level: u32) -> Vec<u16> {
    if level >= 2 {
        (0..=65535u16).collect()
    } else {
        let mut v: Vec<u16> = vec![0, 1, 2, 242, 243, 244, 255, 256, 257, 0x7fff, 0x8000, 65265, 65266, 65267, 65268, 65534, 65535];
        let step = if level == 0 { 4099 } else { 251 };
        let mut x = 3u32;
        while x < 65536 {
            v.push(x as u16);
            x += step;
        }
        v.sort();
        v.dedup();
        v
    }
}

fn fam_ext<F: FnMut(&'static str, &[u8])>(c: &CorpusCfg, f: &mut F) {
    let s2 = sweep2(c.level);
    let all1: Vec<u16> = (0..=255).collect();
    let b1: Vec<u16> = vec![0, 1, 242, 243, 254, 255];
    let b2: Vec<u16> = vec![0, 1, 255, 256, 65265, 65266, 65267, 65535];
    let none: Vec<u16> = vec![0];
    let mut idx: u64 = 0;
    let mut buf: Vec<u8> = Vec::with_capacity(70000);
    for hb in 0..=255u16 {
        let dn = (hb >> 4) as usize;
        let ln = (hb & 15) as usize;
        for pass in 0..2 {
            // pass 0: sweep delta ext, boundary length ext; pass 1: the reverse
            let (dset, lset): (&Vec<u16>, &Vec<u16>) = if pass == 0 {
                (
                    match dn {
                        13 => &all1,
                        14 => &s2,
                        _ => &none,
                    },
                    match ln {
                        13 => &b1,
                        14 => &b2,
                        _ => &none,
                    },
                )
            } else {
                if ln != 13 && ln != 14 {
                    continue;
                }
                (
                    match dn {
                        13 => &b1,
                        14 => &b2,
                        _ => &none,
                    },
                    match ln {
                        13 => &all1,
                        _ => &s2,
                    },
                )
            };
            for &de in dset.iter() {
                for &le in lset.iter() {
                    idx += 1;
                    if !c.mine(idx) || (c.level == 0 && (idx / c.nshards) % 211 != 0) {
                        continue;
                    }
                    let claimed: usize = match ln {
                        13 => le as usize + 13,
                        14 => le as usize + 269,
                        15 => 0,
                        l => l,
                    };
                    let boundary_len = matches!(le, 65265 | 65266 | 65267 | 65535) && ln == 14;
                    let boundary_delta = dn != 14 || matches!(de, 0 | 65266 | 65267 | 65535);
                    let mut emit = |prefix: &[u8], vbytes: usize, tail: &[u8], f: &mut F| {
                        buf.clear();
                        buf.extend_from_slice(&[0x40, 0x01, 0x00, 0x01]);
                        buf.extend_from_slice(prefix);
                        buf.push(hb as u8);
                        match dn {
                            13 => buf.push(de as u8),
                            14 => {
                                buf.push((de >> 8) as u8);
                                buf.push(de as u8);
                            }
                            _ => {}
                        }
                        match ln {
                            13 => buf.push(le as u8),
                            14 => {
                                buf.push((le >> 8) as u8);
                                buf.push(le as u8);
                            }
                            _ => {}
                        }
                        let start = buf.len();
                        buf.resize(start + vbytes, 0x61);
                        buf.extend_from_slice(tail);
                        f("ext", &buf);
                    };
                    if claimed <= 700 || (boundary_len && boundary_delta) {
                        emit(&[], claimed, &[], f); // right length
                        if claimed > 0 {
                            emit(&[], claimed - 1, &[], f); // one short
                        }
                    } else {
                        emit(&[], 40, &[], f); // far too short
                    }
                    if claimed <= 700 && dn <= 1 {
                        // as a later occurrence of a repeated option (delta 0 after an earlier value),
                        // and right behind a neighbour (delta 1)
                        emit(&[0x00], claimed, &[], f);
                        emit(&[0x21, 0x55], claimed, &[0x01, 0x77], f);
                    }
                    if claimed <= 64 {
                        emit(&[], claimed, &[0xff, 0x70], f); // followed by a payload
                        emit(&[], claimed, &[0x10], f); // followed by another option
                        // preceded by an option that moves the running number to 65000 / 65535
                        emit(&[0xe0, 0xfc, 0xdb], claimed, &[], f); // 269+64731 = 65000
                        emit(&[0xe0, 0xfe, 0xf2], claimed, &[], f); // 65535
                    }
                }
            }
        }
    }
}

fn fam_mutated<F: FnMut(&'static str, &[u8])>(c: &CorpusCfg, f: &mut F) {
    let n_msgs = if c.level == 0 { 2 } else { (c.budget / 400).max(4) };
    let mut r = Rng::new(mix(&[c.seed, c.shard, 0xC0DE]));
    let cfg = GenCfg { big: false, small: c.level == 0 };
    let mut buf: Vec<u8> = Vec::new();
    for _ in 0..n_msgs {
        let m = gen_msg(&mut r, &cfg);
        let b = match refcodec::encode(&m) {
            Some(b) => b,
            None => continue,
        };
        f("wellformed", &b);
        // prefixes
        let mut l = 0usize;
        while l < b.len() {
            f("prefix", &b[..l]);
            l += if c.level == 0 {
                1 + b.len() / 24
            } else if l < 64 || b.len() - l <= 16 {
                1
            } else {
                7
            };
        }
        // substitutions
        let positions: Vec<usize> = if c.level == 0 {
            (0..8).map(|_| r.usize_below(b.len().max(1))).collect()
        } else if b.len() <= 120 {
            (0..b.len()).collect()
        } else {
            let mut ps: Vec<usize> = (0..40).collect();
            for _ in 0..60 {
                ps.push(r.usize_below(b.len()));
            }
            ps
        };
        for pos in positions {
            for &sb in SUBST_BYTES {
                if b[pos] == sb {
                    continue;
                }
                buf.clear();
                buf.extend_from_slice(&b);
                buf[pos] = sb;
                f("subst", &buf);
            }
        }
        // one insertion and one deletion at a random place
        if !b.is_empty() {
            let pos = r.usize_below(b.len());
            buf.clear();
            buf.extend_from_slice(&b);
            buf.insert(pos, *r.pick(STRUCT_BYTES));
            f("insert", &buf);
            buf.clear();
            buf.extend_from_slice(&b);
            buf.remove(pos);
            f("delete", &buf);
        }
    }
}

fn fam_random<F: FnMut(&'static str, &[u8])>(c: &CorpusCfg, f: &mut F) {
    let mut r = Rng::new(mix(&[c.seed, c.shard, 0xFACE]));
    let mut buf: Vec<u8> = Vec::new();
    for _ in 0..c.budget {
        buf.clear();
        let len = match r.below(10) {
            0 => r.usize_below(5),
            1..=6 => r.usize_below(24),
            7 | 8 => r.usize_below(80),
            _ => r.usize_below(400),
        };
        if r.chance(2, 3) {
            // plausible header
            let tkl = if r.chance(9, 10) { r.below(9) as u8 } else { r.below(16) as u8 };
            let ver = if r.chance(5, 6) { 1u8 } else { r.below(4) as u8 };
            buf.push(ver << 6 | (r.below(4) as u8) << 4 | tkl);
            buf.push(if r.chance(1, 8) { 0 } else { r.byte() });
            buf.push(r.byte());
            buf.push(r.byte());
            for _ in 0..tkl.min(8) {
                buf.push(r.byte());
            }
        }
        while buf.len() < len {
            if r.chance(3, 5) {
                buf.push(*r.pick(STRUCT_BYTES));
            } else if r.chance(1, 2) {
                buf.push(r.below(13) as u8); // small option header: delta 0, short value
            } else {
                buf.push(r.byte());
            }
        }
        f("random", &buf);
    }
}

fn fam_directed<F: FnMut(&'static str, &[u8])>(c: &CorpusCfg, f: &mut F) {
    if c.shard != 0 {
        return;
    }
    let mut v: Vec<Vec<u8>> = Vec::new();
    // length 0..3
    v.push(vec![]);
    for a in [0x00u8, 0x40, 0x48, 0x4f, 0xff] {
        v.push(vec![a]);
        v.push(vec![a, 0x01]);
        v.push(vec![a, 0x01, 0x00]);
    }
    // TKL 9..15, with and without bytes behind
    for tkl in 9..=15u8 {
        for t in 0..4u8 {
            let mut b = vec![0x40 | t << 4 | tkl, 0x01, 0x00, 0x00];
            v.push(b.clone());
            b.extend_from_slice(&[0x11; 20]);
            v.push(b);
        }
    }
    // truncated token
    for tkl in 1..=8u8 {
        for have in 0..tkl {
            let mut b = vec![0x40 | tkl, 0x01, 0x00, 0x00];
            b.extend(std::iter::repeat(0x22).take(have as usize));
            v.push(b);
        }
        let mut b = vec![0x40 | tkl, 0x01, 0x00, 0x00];
        b.extend(std::iter::repeat(0x22).take(tkl as usize));
        v.push(b);
    }
    // nibble 15
    for hb in (0xf0..=0xfeu8).chain((0..=0xe0u8).step_by(16).map(|x| x | 0x0f)) {
        v.push(vec![0x40, 0x01, 0, 0, hb]);
        v.push(vec![0x40, 0x01, 0, 0, hb, 0, 0, 0, 0, 0, 0, 0, 0, 0, 0, 0, 0, 0, 0, 0, 0, 0]);
        v.push(vec![0x40, 0x01, 0, 0, 0x10, hb, 1, 2, 3]);
    }
    // delta ext-13 byte at the u8 overflow boundary (243 + 13 = 256), e.g. No-Response (258)
    for e in [0u8, 1, 241, 242, 243, 244, 245, 254, 255] {
        v.push(vec![0x40, 0x01, 0, 0, 0xd0, e]);
        v.push(vec![0x40, 0x01, 0, 0, 0xd1, e, 0x02]);
        v.push(vec![0x40, 0x01, 0, 0, 0xd1, e]);
        v.push(vec![0x40, 0x01, 0, 0, 0x0d, e]); // length ext, value missing
    }
    // cumulative number 65535 / 65536 and beyond
    for (hi, lo) in [(0xfeu8, 0xf2u8), (0xfe, 0xf3), (0xff, 0xff), (0xfe, 0xf1)] {
        v.push(vec![0x40, 0x01, 0, 0, 0xe0, hi, lo]);
        v.push(vec![0x40, 0x01, 0, 0, 0xe0, hi, lo, 0x00]);
        v.push(vec![0x40, 0x01, 0, 0, 0xe0, hi, lo, 0x10]);
        v.push(vec![0x40, 0x01, 0, 0, 0xe0, hi, lo, 0xd0, 0x00]);
        v.push(vec![0x40, 0x01, 0, 0, 0x10, 0xe0, hi, lo]);
        v.push(vec![0x40, 0x01, 0, 0, 0xe0, 0x7f, 0x00, 0xe0, hi, lo]);
    }
    // 16-bit length extension at the top of its range, with and without the bytes
    for (hi, lo) in [(0xfeu8, 0xf2u8), (0xfe, 0xf3), (0xff, 0xff), (0x00, 0x00)] {
        let claimed = ((hi as usize) << 8 | lo as usize) + 269;
        if c.level == 0 && claimed > 1000 && hi != 0xff {
            continue;
        }
        let mut b = vec![0x40, 0x01, 0, 0, 0x0e, hi, lo];
        v.push(b.clone());
        b.extend(std::iter::repeat(0x33).take(claimed - 1));
        v.push(b.clone());
        b.push(0x33);
        v.push(b.clone());
        b.extend_from_slice(&[0xff, 0x01]);
        v.push(b);
    }
    // truncated extensions
    v.push(vec![0x40, 0x01, 0, 0, 0xe0]);
    v.push(vec![0x40, 0x01, 0, 0, 0xe0, 0x00]);
    v.push(vec![0x40, 0x01, 0, 0, 0x0e]);
    v.push(vec![0x40, 0x01, 0, 0, 0x0e, 0x00]);
    v.push(vec![0x40, 0x01, 0, 0, 0xee, 0, 0, 0]);
    v.push(vec![0x40, 0x01, 0, 0, 0xdd, 0]);
    // markers
    v.push(vec![0x40, 0x01, 0, 0, 0xff]);
    v.push(vec![0x40, 0x01, 0, 0, 0xff, 0xff]);
    v.push(vec![0x40, 0x00, 0, 0, 0xff, 0x01]);
    v.push(vec![0x40, 0x00, 0, 0]);
    v.push(vec![0x41, 0x00, 0, 0, 0x09]);
    for b in v {
        f("directed", &b);
    }
    // very many tiny options (more than any size constant of the crate), with various tails
    let counts: &[usize] = if c.level == 0 { &[1281] } else { &[1279, 1280, 1281, 1282, 2000, 4096, 63999, 64000, 64001, 65535, 65536, 65537, 70001, 131072] };
    for &n in counts {
        for (hdr, first) in [(0x00u8, 0x00u8), (0x10, 0x10), (0x01, 0xd1)] {
            // n options: delta 0 / delta 1 (numbers 1..n) / one-byte values
            let mut b: Vec<u8> = vec![0x40, 0x01, 0x00, 0x09];
            for i in 0..n {
                b.push(if i == 0 { first } else { hdr });
                if i == 0 && first == 0xd1 {
                    b.push(0x00);
                }
                if hdr & 0x0f == 1 {
                    b.push((i & 0xff) as u8);
                }
            }
            f("many-options", &b);
            let l = b.len();
            b.extend_from_slice(&[0xff, 0x70, 0x71]);
            f("many-options", &b);
            b.truncate(l);
            b.push(0xf1); // reserved delta nibble after all of them
            f("many-options", &b);
            b.truncate(l);
            b.extend_from_slice(&[0x0d]); // truncated length extension
            f("many-options", &b);
            b.truncate(l);
            b.extend_from_slice(&[0xe0, 0xff, 0xff]); // pushes the number past 65535
            f("many-options", &b);
        }
    }
}

// ---------------------------------------------------------------------------------------
// C03

fn diff_kind(got: &Msg, want: &Msg) -> &'static str {
    if got.ver != want.ver || got.typ != want.typ || got.code != want.code || got.mid != want.mid {
        "header"
    } else if got.token != want.token {
        "token"
    } else if got.options.len() != want.options.len() {
        "option-count"
    } else if got.options.iter().zip(want.options.iter()).any(|(a, b)| a.0 != b.0) {
        "option-number"
    } else if got.options != want.options {
        "option-value"
    } else if got.payload != want.payload {
        "payload"
    } else {
        "equal"
    }
}

pub fn run_c03(ctx: &mut Ctx) {
    let cfg = CorpusCfg { level: ctx.level, budget: ctx.budget, seed: ctx.seed, shard: ctx.shard, nshards: ctx.nshards };
    let rep = &mut ctx.rep;
    corpus(&cfg, &mut |fam, b| c03_one(rep, fam, b));
    for k in ["class_accept", "class_reject_short", "class_reject_tkl9-15", "class_reject_token-trunc", "class_reject_delta-nibble15", "class_reject_len-nibble15", "class_reject_delta-ext-trunc", "class_reject_len-ext-trunc", "class_reject_value-trunc", "class_reject_number>65535", "class_either_version!=1", "class_either_marker-then-nothing", "class_either_content-in-empty"] {
        rep.floor(k, 1);
    }
}

fn c03_one(rep: &mut Report, fam: &'static str, b: &[u8]) {
    rep.eval();
    set_case_hex(b);
    let verdict = refcodec::parse(b);
    let r = guard(|| Packet::from_bytes(b));
    let r = match r {
        Err(pr) => {
            rep.violation(&format!("{}", pr.sig()), format!("{} (reference verdict: {})", pr.text(), verdict_name(&verdict)), hex_short(b));
            return;
        }
        Ok(r) => r,
    };
    match &verdict {
        Verdict::MustReject(k) => {
            rep.bucket(&format!("class_reject_{}", k.name()));
            rep.distinct(fnv(format!("rej:{}:{}", k.name(), fam).as_bytes()) ^ (b.len().min(12) as u64));
            if let Ok(p) = &r {
                let got = packet_to_msg(p);
                rep.violation(&format!("accepted-malformed:{}", k.name()), format!("parser accepted a datagram that must be rejected ({}); it returned {}", k.name(), got.describe()), hex_short(b));
                return;
            }
            rep.count("rejected_as_required");
        }
        Verdict::MustAccept(m) => {
            rep.bucket("class_accept");
            if msg_is_nontrivial(m) {
                rep.distinct(msg_signature(m));
            }
            match &r {
                Err(e) => {
                    rep.violation("rejected-wellformed", format!("parser returned {:?} for a well-formed datagram: {}", e, m.describe()), hex_short(b));
                    return;
                }
                Ok(p) => {
                    let got = packet_to_msg(p);
                    if &got != m || p.header.get_token_length() as usize != m.token.len() {
                        rep.violation(&format!("wrong-fields:{}", diff_kind(&got, m)), format!("fields differ from the grammar: {}", diff_msg(&got, m)), hex_short(b));
                        return;
                    }
                    rep.count("accepted_with_exact_fields");
                }
            }
        }
        Verdict::Either(m, why) => {
            rep.bucket(&format!("class_either_{}", why));
            if let Ok(p) = &r {
                let got = packet_to_msg(p);
                if &got != m {
                    rep.violation(&format!("wrong-fields:{}", diff_kind(&got, m)), format!("accepted ({}), but fields differ from the grammar: {}", why, diff_msg(&got, m)), hex_short(b));
                    return;
                }
                rep.count("either_accepted");
            } else {
                rep.count("either_rejected");
            }
        }
    }
    rep.bucket(&format!("family_{}", fam));
    rep.sample_every(400_009, || format!("[{}] {} -> {}", fam, hex_short(b), verdict_name(&verdict)));
}

fn verdict_name(v: &Verdict) -> String {
    match v {
        Verdict::MustAccept(m) => format!("must-accept {}", m.describe()),
        Verdict::MustReject(k) => format!("must-reject ({})", k.name()),
        Verdict::Either(_, why) => format!("either ({})", why),
    }
}

fn set_case_hex(b: &[u8]) {
    // cheap: raw copy, the hook hex-dumps it
    if b.len() <= 2048 {
        set_case(b);
    } else {
        set_case(&b[..2048]);
    }
    crate::panicwatch::set_case_is_hex(true);
}

// ---------------------------------------------------------------------------------------
// C02

pub fn run_c02(ctx: &mut Ctx) {
    let cfg = CorpusCfg { level: ctx.level, budget: ctx.budget, seed: ctx.seed, shard: ctx.shard, nshards: ctx.nshards };
    let rep = &mut ctx.rep;
    let mut seen: HashMap<u64, Vec<u8>> = HashMap::new();
    corpus(&cfg, &mut |fam, b| c02_one(rep, &mut seen, fam, b));
    rep.floor("accepted", (rep.evaluations / 50).max(1));
    rep.floor("reencoded_identical", (rep.evaluations / 50).max(1));
    // (how often the two permitted differences occur is an observation, not a floor: a parser may
    // legitimately reject those datagrams instead of accepting and normalising them)
}

fn c02_one(rep: &mut Report, seen: &mut HashMap<u64, Vec<u8>>, fam: &'static str, b: &[u8]) {
    rep.eval();
    set_case_hex(b);
    let p = match guard(|| Packet::from_bytes(b)) {
        Err(_) => {
            rep.count("parser_panicked_(C03_reports_it)");
            return;
        }
        Ok(Err(_)) => {
            rep.count("rejected");
            return;
        }
        Ok(Ok(p)) => p,
    };
    rep.count("accepted");
    rep.bucket(&format!("accepted_family_{}", fam));
    let out = match guard(|| p.to_bytes_unlimited()) {
        Err(pr) => {
            rep.violation(&format!("reencode-{}", pr.sig()), pr.text(), hex_short(b));
            return;
        }
        Ok(Err(e)) => {
            rep.violation("reencode-refused", format!("accepted datagram cannot be re-encoded: {:?}", e), hex_short(b));
            return;
        }
        Ok(Ok(o)) => o,
    };
    // what must come out
    let verdict = refcodec::parse(b);
    let ok = match &verdict {
        Verdict::MustAccept(m) | Verdict::Either(m, _) => {
            let want = refcodec::normalise(b, m);
            if want.len() != b.len() {
                if m.code == 0 && !m.payload.is_empty() {
                    rep.count("dropped_empty_message_payload");
                } else {
                    rep.count("dropped_trailing_marker");
                }
            }
            if msg_is_nontrivial(m) {
                rep.distinct(msg_signature(m));
            }
            out == want
        }
        Verdict::MustReject(_) => {
            // accepted although malformed (C03 reports that); C02 still requires byte identity,
            // up to the two permitted differences evaluated without a reference structure
            rep.count("accepted_but_reference_rejects");
            out == b
                || (b.last() == Some(&0xff) && out[..] == b[..b.len() - 1])
                || (b[1] == 0 && out.len() < b.len() && b.starts_with(&out) && b[out.len()] == 0xff)
        }
    };
    if !ok {
        let at = out.iter().zip(b.iter()).position(|(a, c)| a != c).unwrap_or(out.len().min(b.len()));
        rep.violation(
            "reencode-differs",
            format!("re-encoded bytes differ from the accepted input at byte {} (in {} bytes, out {} bytes): out={}", at, b.len(), out.len(), hex_short(&out)),
            hex_short(b),
        );
        return;
    }
    rep.count("reencoded_identical");
    // injectivity on small inputs: equal parsed messages must come from equal (normalised) inputs
    if out.len() <= 24 && seen.len() < 400_000 {
        let m = packet_to_msg(&p);
        let mut key_bytes = vec![m.ver, m.typ, m.code, (m.mid >> 8) as u8, m.mid as u8, m.token.len() as u8, p.header.get_token_length()];
        key_bytes.extend_from_slice(&m.token);
        for (n, v) in &m.options {
            key_bytes.extend_from_slice(&n.to_be_bytes());
            key_bytes.extend_from_slice(&(v.len() as u32).to_be_bytes());
            key_bytes.extend_from_slice(v);
        }
        key_bytes.push(0xff);
        if m.code != 0 {
            key_bytes.extend_from_slice(&m.payload);
        }
        let key = fnv(&key_bytes);
        match seen.get(&key) {
            Some(prev) if prev != &out => {
                // confirm with the crate's own equality
                if let Ok(q) = Packet::from_bytes(prev) {
                    let mut q2 = q.clone();
                    let mut p2 = p.clone();
                    if m.code == 0 {
                        q2.payload.clear();
                        p2.payload.clear();
                    }
                    if q2 == p2 {
                        rep.violation("non-injective", format!("two different accepted datagrams parse to equal messages: {} and {}", hex(prev), hex_short(b)), hex_short(b));
                    }
                }
            }
            Some(_) => {}
            None => {
                seen.insert(key, out.clone());
                rep.count("injectivity_entries");
            }
        }
    }
    rep.sample_every(200_003, || format!("[{}] in={} out={}", fam, hex_short(b), hex_short(&out)));
}

// ---------------------------------------------------------------------------------------
// C04

pub fn run_c04(ctx: &mut Ctx) {
    let mut r = ctx.rng(4);
    let cfg = GenCfg { big: false, small: ctx.san() };
    let maxsz = expected_max_size();
    let (shard, san, seed, budget) = (ctx.shard, ctx.san(), ctx.seed, ctx.budget);
    let rep = &mut ctx.rep;
    if Packet::MAX_SIZE != maxsz {
        rep.violation("max-size-constant", format!("Packet::MAX_SIZE is {} but the documented limit for this build is {}", Packet::MAX_SIZE, maxsz), "Packet::MAX_SIZE".into());
    }
    for case in 0..budget {
        let kind = case % 8;
        let mut m = gen_msg(&mut r, &cfg);
        let mut label = "random";
        match kind {
            0 | 1 => {
                // steer to maxsz-1 / maxsz / maxsz+1 through the payload
                if m.code == 0 {
                    m.code = 0x45;
                }
                m.payload.clear();
                let target = maxsz - 1 + (r.usize_below(3));
                let w0 = refcodec::wire_len(&m).unwrap();
                if w0 + 2 <= target {
                    m.payload = r.bytes(target - w0 - 1);
                    label = "steered-by-payload";
                }
            }
            2 | 3 => {
                // steer through options only (no payload, no marker)
                m.payload.clear();
                let target = maxsz - 1 + (r.usize_below(3));
                if steer_by_option(&mut m, target, &mut r) {
                    label = "steered-by-options";
                }
            }
            4 => {
                // 0.00 with a large payload: payload is not sent, so it does not count
                m.code = 0;
                let pl = r.urange(1, 3000);
                m.payload = r.bytes(pl);
                label = "empty-code-with-payload";
            }
            _ => {}
        }
        // half of the packets carry leftovers of earlier API calls (cleared option keys with empty
        // value lists, replaced lists): the wire image, and therefore the limit decision, is the same
        let p = if case % 2 == 0 { msg_to_packet(&m) } else { build_packet(&m, &mut r).0 };
        if case % 2 == 1 {
            rep.count("packets_with_api_leftovers");
        }
        // a third of the packets hold their bytes in vectors with spare capacity (an earlier, larger
        // body shrunk in place; values built in pre-sized buffers): lengths count, capacities do not
        let mut p = p;
        if case % 3 == 1 {
            let extra = *r.pick(&[1usize, 7, 64, 700, 3000]);
            let mut v: Vec<u8> = Vec::with_capacity(p.payload.len() + extra);
            if r.bool() {
                v.extend_from_slice(&p.payload);
            } else {
                v.extend_from_slice(&p.payload);
                v.resize(p.payload.len() + extra, 0xEE);
                v.truncate(p.payload.len());
            }
            p.payload = v;
            let mut t: Vec<u8> = Vec::with_capacity(p.get_token().len() + extra);
            t.extend_from_slice(p.get_token());
            p.set_token(t);
            let keys: Vec<CoapOption> = p.options().map(|(k, _)| CoapOption::from(*k)).collect();
            for k in keys {
                if let Some(list) = p.get_option(k).cloned() {
                    let mut nl = LinkedList::new();
                    for val in list {
                        let mut nv: Vec<u8> = Vec::with_capacity(val.len() + extra % 97);
                        nv.extend_from_slice(&val);
                        nl.push_back(nv);
                    }
                    p.set_option(k, nl);
                }
            }
            rep.count("packets_with_spare_capacity");
        }
        let p = p;
        c04_one(rep, &m, &p, label, maxsz, &mut r, seed, shard, case);
        // the same packet with a header whose TKL nibble no longer matches the stored token (the
        // header is a public field: assigned wholesale for a reply, or its token length set by hand)
        if case % 4 == 3 {
            let mut q = p.clone();
            let how = r.below(3);
            match how {
                0 => {
                    let mut t = r.below(16) as u8;
                    if t as usize == q.get_token().len() {
                        t = (t + 1 + r.below(7) as u8) % 16;
                    }
                    q.header.set_token_length(t);
                }
                1 => {
                    // header re-initialised after the token was set
                    let mut h = coap_lite::Header::new();
                    h.code = q.header.code;
                    h.message_id = q.header.message_id;
                    q.header = h;
                    if q.get_token().is_empty() {
                        q.header.set_token_length(1 + r.below(8) as u8);
                    }
                }
                _ => {
                    // header copied from another message (a request with an 8-byte or empty token)
                    let mut other = Packet::new();
                    other.set_token(if q.get_token().len() == 8 { vec![] } else { vec![7; 8] });
                    q.header = other.header.clone();
                }
            }
            c04_inconsistent_header(rep, &q, maxsz, &mut r, &format!("msg: {} | header TKL {} vs token of {} bytes | seed={} shard={} case={}", m.describe(), q.header.get_token_length(), q.get_token().len(), seed, shard, case));
        }
    }
    // codes held as an enum variant that the byte conversion would never produce (Reserved(b) for a
    // byte that has a name; in particular Reserved(0) next to Empty): judged by self-consistency too
    if shard == 0 || san {
        for b in [0u8, 1, 2, 0x45, 0x84, 0xa0, 0x1f, 0xff] {
            for tkl in [0usize, 8] {
                for plen in [0usize, 1, 100, 1275, 1300] {
                    let mut q = Packet::new();
                    q.header.code = MessageClass::Reserved(b);
                    q.header.message_id = 7;
                    q.set_token(vec![3; tkl]);
                    q.add_option(CoapOption::UriPath, b"r".to_vec());
                    q.payload = vec![0x44; plen];
                    c04_inconsistent_header(rep, &q, maxsz, &mut r, &format!("code held as MessageClass::Reserved({:#04x}), token {}B, one option, payload {}B", b, tkl, plen));
                    rep.count("non_canonical_code_variants");
                }
            }
        }
    }
    rep.floor("inconsistent_header_limit_decisions", 1);
    rep.floor("packets_with_spare_capacity", 1);
    // oversize option values: must be refused, never emitted with a wrong length
    if shard == 0 || san {
        for vlen in [65803usize, 65804, 65805, 65806, 70000, 65804 + 65536, 131341] {
            for with_other in [false, true] {
                let mut m = Msg { ver: 1, typ: 0, token: vec![9], code: 2, mid: 7, options: vec![(r.below(2000) as u16, vec![0x5a; vlen])], payload: vec![] };
                if with_other {
                    m.options.insert(0, (0, vec![1, 2, 3]));
                    m.payload = vec![1, 2, 3];
                }
                let p = msg_to_packet(&m);
                c04_one(rep, &m, &p, "oversize-option-value", maxsz, &mut r, seed, shard, 1_000_000 + vlen as u64);
            }
        }
    }
    rep.floor("limit_exactly_W_ok", 1);
    rep.floor("limit_W_minus_1_refused", 1);
    rep.floor("label_steered-by-payload", 1);
    rep.floor("label_steered-by-options", 1);
    rep.floor("label_empty-code-with-payload", 1);
    rep.floor("default_limit_refused", 1);
    rep.floor("default_limit_ok", 1);
}

/// A Packet whose header TKL disagrees with its token is not a message the reference codec can
/// judge, but the limit clause still has an implementation-independent reading: whatever the
/// serialiser emits without a limit is "the exact wire length", and a limited call succeeds, with
/// the very same bytes, exactly when that length is within the limit.
fn c04_inconsistent_header(rep: &mut Report, q: &Packet, maxsz: usize, r: &mut Rng, witness: &str) {
    rep.eval();
    set_case_str(witness);
    let unlimited = match guard(|| q.to_bytes_unlimited()) {
        Err(pr) => {
            rep.violation(&format!("encode-{}", pr.sig()), pr.text(), witness.to_string());
            return;
        }
        Ok(u) => u,
    };
    let w = unlimited.as_ref().ok().map(|b| b.len());
    let mut limits: Vec<usize> = vec![maxsz, usize::MAX, 0, 4];
    if let Some(w) = w {
        limits.extend_from_slice(&[w, w + 1, w.saturating_sub(1), w.saturating_sub(8), w + 8, w.saturating_sub(1 + r.usize_below(16)), w + r.usize_below(16)]);
    }
    for (i, l) in limits.iter().enumerate() {
        let res = if i == 0 { guard(|| q.to_bytes()) } else { guard(|| q.to_bytes_with_limit(*l)) };
        let name = if i == 0 { "to_bytes()".to_string() } else { format!("to_bytes_with_limit({})", l) };
        match (res, &unlimited) {
            (Err(pr), _) => {
                rep.violation(&format!("encode-{}", pr.sig()), pr.text(), witness.to_string());
                return;
            }
            (Ok(Ok(b)), _) if b.len() > *l => {
                rep.violation("limit-not-enforced:inconsistent-header", format!("{} returned {} bytes", name, b.len()), witness.to_string());
                return;
            }
            (Ok(Ok(b)), Ok(u)) if &b != u => {
                rep.violation("limited-output-differs:inconsistent-header", format!("{} returned {} bytes, the unlimited call {} different bytes", name, b.len(), u.len()), witness.to_string());
                return;
            }
            (Ok(Ok(b)), Err(e)) => {
                rep.violation("limited-output-differs:inconsistent-header", format!("{} returned {} bytes, the unlimited call refused with {:?}", name, b.len(), e), witness.to_string());
                return;
            }
            (Ok(Err(e)), Ok(u)) if u.len() <= *l => {
                rep.violation("limit-too-strict:inconsistent-header", format!("{} refused with {:?} although the serialiser's own unlimited output is {} bytes", name, e, u.len()), witness.to_string());
                return;
            }
            _ => {}
        }
    }
    rep.count("inconsistent_header_limit_decisions");
    if let Some(w) = w {
        rep.distinct(mix(&[0xC04D, q.header.get_token_length() as u64, q.get_token().len() as u64, (w as u64).min(64)]));
    }
}

fn steer_by_option(m: &mut Msg, target: usize, r: &mut Rng) -> bool {
    // append one option after the last so that the total wire length becomes `target`
    let w0 = refcodec::wire_len(m).unwrap();
    if w0 + 3 > target {
        return false;
    }
    let last = m.options.last().map(|o| o.0 as usize).unwrap_or(0);
    let n = (last + *r.pick(&[0usize, 1, 12, 13, 300])).min(65535);
    // find a value length v with opt_len(n-last, v) == target - w0
    let need = target - w0;
    for v in (0..need).rev() {
        let l = refcodec::opt_len(n - last, v);
        if l == need {
            m.options.push((n as u16, r.bytes(v)));
            return true;
        }
        if l < need {
            break;
        }
    }
    false
}

#[allow(clippy::too_many_arguments)]
fn c04_one(rep: &mut Report, m: &Msg, p: &Packet, label: &str, maxsz: usize, r: &mut Rng, seed: u64, shard: u64, case: u64) {
    rep.eval();
    set_case_str(&format!("C04 seed={} shard={} case={} {}", seed, shard, case, m.describe()));
    rep.bucket(&format!("label_{}", label));
    let witness = || format!("msg: {} | kind {} | seed={} shard={} case={}", m.describe(), label, seed, shard, case);
    let reference = refcodec::encode(m);
    let w = match &reference {
        Some(b) => b.len(),
        None => {
            // not representable: all three calls must refuse
            for (name, res) in [
                ("to_bytes_unlimited", guard(|| p.to_bytes_unlimited())),
                ("to_bytes_with_limit(usize::MAX)", guard(|| p.to_bytes_with_limit(usize::MAX))),
                ("to_bytes", guard(|| p.to_bytes())),
            ] {
                match res {
                    Err(pr) => rep.violation(&format!("oversize-{}", pr.sig()), pr.text(), witness()),
                    Ok(Ok(b)) => rep.violation(
                        "oversize-option-emitted",
                        format!("{} emitted {} bytes for a message whose option value ({} bytes) cannot be represented; option header bytes: {}", name, b.len(), m.options.iter().map(|o| o.1.len()).max().unwrap_or(0), hex(&b[4 + m.token.len()..(4 + m.token.len() + 8).min(b.len())])),
                        witness(),
                    ),
                    Ok(Err(_)) => rep.count("oversize_refused"),
                }
            }
            return;
        }
    };
    let reference = reference.unwrap();
    rep.distinct(mix(&[msg_signature(m), (w as u64).min(maxsz as u64 + 2).saturating_sub(maxsz as u64 - 2), fnv(label.as_bytes())]));
    // unlimited
    match guard(|| p.to_bytes_unlimited()) {
        Err(pr) => {
            rep.violation(&format!("encode-{}", pr.sig()), pr.text(), witness());
            return;
        }
        Ok(Err(e)) => {
            rep.violation("unlimited-refused", format!("to_bytes_unlimited returned {:?}; wire length is {}", e, w), witness());
            return;
        }
        Ok(Ok(b)) => {
            if b != reference {
                rep.violation("unlimited-output-differs", format!("len {} vs reference {}", b.len(), w), witness());
                return;
            }
        }
    }
    // custom limits around W
    let mut limits: Vec<usize> = vec![w, w + 1, 0, 3, 4, usize::MAX];
    if w > 0 {
        limits.push(w - 1);
    }
    limits.push(r.usize_below(w + 10));
    for l in limits {
        let res = guard(|| p.to_bytes_with_limit(l));
        let name = if l == w {
            "limit_exactly_W"
        } else if l.checked_add(1) == Some(w) {
            "limit_W_minus_1"
        } else if l == w + 1 {
            "limit_W_plus_1"
        } else {
            "limit_other"
        };
        if !check_limited(rep, res, w, l, &reference, name, &witness) {
            return;
        }
    }
    // default limit
    let res = guard(|| p.to_bytes());
    if w <= maxsz {
        rep.bucket("default_limit_ok");
    } else {
        rep.bucket("default_limit_refused");
    }
    if w + 1 == maxsz || w == maxsz || w == maxsz + 1 {
        rep.bucket(&format!("default_limit_W_is_max{:+}", w as i64 - maxsz as i64));
    }
    if !check_limited(rep, res, w, maxsz, &reference, "default", &witness) {
        return;
    }
    rep.sample_every(1499, || format!("{} | W={} | kind {}", m.describe(), w, label));
}

fn check_limited<W: Fn() -> String>(
    rep: &mut Report,
    res: Result<Result<Vec<u8>, MessageError>, crate::panicwatch::PanicRec>,
    w: usize,
    limit: usize,
    reference: &[u8],
    name: &str,
    witness: &W,
) -> bool {
    match res {
        Err(pr) => {
            rep.violation(&format!("encode-{}", pr.sig()), pr.text(), witness());
            false
        }
        Ok(Ok(b)) => {
            if w > limit {
                rep.violation(&format!("limit-not-enforced:{}", name), format!("wire length {} exceeds limit {} but serialisation succeeded ({} bytes)", w, limit, b.len()), witness());
                return false;
            }
            if b.len() != w || b != reference {
                rep.violation(&format!("limited-output-differs:{}", name), format!("len {} vs exact wire length {}", b.len(), w), witness());
                return false;
            }
            rep.bucket(&format!("{}_ok", name));
            true
        }
        Ok(Err(e)) => {
            if w <= limit {
                rep.violation(&format!("limit-too-strict:{}", name), format!("wire length {} is within limit {} but serialisation returned {:?}", w, limit, e), witness());
                return false;
            }
            if e != MessageError::InvalidPacketLength {
                rep.violation(&format!("wrong-error:{}", name), format!("over-limit message refused with {:?}, not the packet-length error", e), witness());
                return false;
            }
            rep.bucket(&format!("{}_refused", name));
            true
        }
    }
}

// ---------------------------------------------------------------------------------------
// replay helper: run all codec oracles on one datagram given as hex

pub fn replay_datagram(b: &[u8]) {
    let mut rep = Report::new("replay", "replay");
    c03_one(&mut rep, "directed", b);
    let mut seen = HashMap::new();
    c02_one(&mut rep, &mut seen, "directed", b);
    println!("input: {}", hex_short(b));
    println!("reference verdict: {}", verdict_name(&refcodec::parse(b)));
    match guard(|| Packet::from_bytes(b)) {
        Ok(Ok(p)) => println!("from_bytes: Ok {}", packet_to_msg(&p).describe()),
        Ok(Err(e)) => println!("from_bytes: Err({:?})", e),
        Err(pr) => println!("from_bytes: {}", pr.text()),
    }
    for v in &rep.violations {
        println!("VIOLATION-DETAIL sig={} {}", v.sig, v.detail);
    }
    if rep.violations.is_empty() {
        println!("no violation on this datagram");
    }
}
