//! Panic capture around every call into the crate under test.
//!
//! Ordinary panics are caught per call with `catch_unwind`; the hook records message and
//! location.  Panics that cannot unwind (std `ub_checks`, panic-in-drop) abort the process:
//! for those the hook prints a `CLV-ABORT-PANIC` line with the current case to stderr, which
//! run.py turns into a violation with the shard command as replay.

use std::cell::RefCell;
use std::panic::{catch_unwind, AssertUnwindSafe};

thread_local! {
    static LAST: RefCell<Option<PanicRec>> = const { RefCell::new(None) };
    static CASE: RefCell<Vec<u8>> = const { RefCell::new(Vec::new()) };
    static CASE_HEX: std::cell::Cell<bool> = const { std::cell::Cell::new(false) };
    static IN_GUARD: std::cell::Cell<u32> = const { std::cell::Cell::new(0) };
}

#[derive(Clone, Debug)]
pub struct PanicRec {
    pub msg: String,
    pub file: String,
    pub line: u32,
}

impl PanicRec {
    /// signature without run-specific numbers
    pub fn sig(&self) -> String {
        // drop run-specific content: digits, and everything from the first quoted fragment on
        let head = self.msg.split(|c| c == '`' || c == '\'' || c == '"').next().unwrap_or("");
        let m: String = head.chars().map(|c| if c.is_ascii_digit() { '#' } else { c }).collect();
        let mut short = String::new();
        let mut prev = ' ';
        for c in m.chars() {
            if c == '#' && prev == '#' {
                continue;
            }
            short.push(c);
            prev = c;
        }
        let short: String = short.trim().chars().take(60).collect();
        format!("panic:{}:{}", self.file, short)
    }
    pub fn text(&self) -> String {
        format!("panicked at {}:{}: {}", self.file, self.line, self.msg)
    }
}

fn norm_file(f: &str) -> String {
    // "/repo/src/packet.rs" | "../../repo/src/packet.rs" -> "src/packet.rs"
    if let Some(i) = f.rfind("repo/src/") {
        return f[i + 5..].to_string();
    }
    if let Some(i) = f.rfind("/library/") {
        return format!("std:{}", &f[i + 9..]);
    }
    if let Some(i) = f.rfind("/src/") {
        // registry crate or harness
        let head = &f[..i];
        let krate = head.rsplit('/').next().unwrap_or("");
        return format!("{}{}", krate, &f[i..]);
    }
    f.to_string()
}

pub fn install() {
    std::panic::set_hook(Box::new(|info| {
        let msg = if let Some(s) = info.payload().downcast_ref::<&str>() {
            s.to_string()
        } else if let Some(s) = info.payload().downcast_ref::<String>() {
            s.clone()
        } else {
            "<non-string panic payload>".to_string()
        };
        let (file, line) = match info.location() {
            Some(l) => (norm_file(l.file()), l.line()),
            None => ("?".to_string(), 0),
        };
        if msg.starts_with("unsafe precondition") || msg.contains("cannot unwind") || std::env::var_os("CLV_TRACE_CASES").is_some() {
            let as_hex = CASE_HEX.with(|h| h.get());
            let case = CASE.with(|c| {
                c.try_borrow()
                    .map(|c| if as_hex { format!("hex:{}", crate::rng::hex(&c)) } else { String::from_utf8_lossy(&c).to_string() })
                    .unwrap_or_default()
            });
            eprintln!("CLV-ABORT-PANIC at {}:{}: {} | case={}", file, line, msg.replace('\n', " "), case);
        }
        if IN_GUARD.with(|g| g.get()) == 0 {
            eprintln!("CLV-HARNESS-PANIC (outside any guard) at {}:{}: {}", file, line, msg);
        }
        LAST.with(|l| {
            if let Ok(mut l) = l.try_borrow_mut() {
                *l = Some(PanicRec { msg, file, line });
            }
        });
    }));
}

/// remember a textual description of the case about to be executed (cheap; reused buffer)
#[inline]
pub fn set_case(desc: &[u8]) {
    CASE.with(|c| {
        let mut c = c.borrow_mut();
        c.clear();
        c.extend_from_slice(desc);
    });
}

pub fn set_case_str(desc: &str) {
    set_case(desc.as_bytes());
    CASE_HEX.with(|h| h.set(false));
}

pub fn set_case_is_hex(v: bool) {
    CASE_HEX.with(|h| h.set(v));
}

/// Run `f`, converting a panic into `Err(PanicRec)`.
#[inline]
pub fn guard<T, F: FnOnce() -> T>(f: F) -> Result<T, PanicRec> {
    IN_GUARD.with(|g| g.set(g.get() + 1));
    let r = catch_unwind(AssertUnwindSafe(f));
    IN_GUARD.with(|g| g.set(g.get() - 1));
    match r {
        Ok(v) => Ok(v),
        Err(_) => {
            let rec = LAST.with(|l| l.borrow_mut().take());
            Err(rec.unwrap_or(PanicRec { msg: "<unknown panic>".into(), file: "?".into(), line: 0 }))
        }
    }
}
