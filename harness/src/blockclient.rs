//! Block-wise test bench: a server loop around `BlockHandler` that is driven only through
//! encoded datagrams, and a counting endpoint type.
//!
//!   client bytes -> Packet::from_bytes -> CoapRequest::from_packet -> intercept_request
//!     -> (application callback) -> intercept_response -> to_bytes -> client Packet::from_bytes

use crate::panicwatch::{guard, PanicRec};
use coap_lite::block_handler::BlockValue;
use coap_lite::error::HandlingError;
use coap_lite::{BlockHandler, BlockHandlerConfig, CoapOption, CoapRequest, MessageClass, Packet};
use std::convert::TryFrom;
use std::sync::atomic::{AtomicI64, AtomicU64, Ordering::SeqCst};
use std::time::Duration;

// ------------------------------------------------------------------------------------------
// counting endpoint: Clone/Drop maintain a global live-instance count.  Each LruCache entry
// owns exactly two instances (map key + recency list), so live instances held by a handler
// divided by two = physical cache entries, including expired-but-unpurged ones.

static LIVE_EPS: AtomicI64 = AtomicI64::new(0);
static EP_CLONES: AtomicU64 = AtomicU64::new(0);

#[derive(Debug, PartialEq, Eq, PartialOrd, Ord)]
pub struct CEp(pub u32);

impl CEp {
    pub fn new(id: u32) -> CEp {
        LIVE_EPS.fetch_add(1, SeqCst);
        CEp(id)
    }
}

impl Clone for CEp {
    fn clone(&self) -> CEp {
        LIVE_EPS.fetch_add(1, SeqCst);
        EP_CLONES.fetch_add(1, SeqCst);
        CEp(self.0)
    }
}

impl Drop for CEp {
    fn drop(&mut self) {
        LIVE_EPS.fetch_sub(1, SeqCst);
    }
}

pub fn live_endpoints() -> i64 {
    LIVE_EPS.load(SeqCst)
}

// ------------------------------------------------------------------------------------------

/// What the application does with a request that reaches it.
#[derive(Clone, Debug)]
pub struct AppReply {
    pub code: u8,
    pub options: Vec<(u16, Vec<u8>)>,
    pub payload: Vec<u8>,
}

impl AppReply {
    pub fn content(payload: Vec<u8>) -> AppReply {
        AppReply { code: 0x45, options: vec![], payload }
    }
}

#[derive(Debug)]
pub enum Step<T> {
    Ok(T),
    Err(HandlingError),
    Panic(PanicRec),
}

impl<T: Copy> Step<T> {
    pub fn ok(&self) -> Option<T> {
        match self {
            Step::Ok(v) => Some(*v),
            _ => None,
        }
    }
    pub fn describe(&self) -> String
    where
        T: std::fmt::Debug,
    {
        match self {
            Step::Ok(v) => format!("Ok({:?})", v),
            Step::Err(e) => format!("Err({:?}: {})", e.code, e.message),
            Step::Panic(p) => format!("PANIC {}", p.text()),
        }
    }
}

/// Everything observable about one request/response exchange.
#[derive(Debug)]
pub struct Exchange {
    pub intercept_request: Step<bool>,
    /// did the request reach the application?
    pub app_called: bool,
    /// request payload as the application saw it
    pub app_saw_payload: Option<Vec<u8>>,
    pub intercept_response: Option<Step<bool>>,
    /// apply_from_error result when an entry point returned Err
    pub error_applied: Option<bool>,
    /// the reply as the client decodes it from the encoded bytes (None: no reply prepared)
    pub reply: Option<Packet>,
    pub reply_len: Option<usize>,
    pub reply_encode_error: Option<String>,
}

impl Exchange {
    pub fn block_of(&self, opt: CoapOption) -> Option<BlockValue> {
        self.reply.as_ref().and_then(|r| r.get_first_option(opt).cloned()).and_then(|v| BlockValue::try_from(v).ok())
    }
    pub fn reply_code(&self) -> Option<u8> {
        self.reply.as_ref().map(|r| u8::from(r.header.code))
    }
    pub fn summary(&self) -> String {
        format!(
            "intercept_request={} app_called={} intercept_response={} reply={}",
            self.intercept_request.describe(),
            self.app_called,
            self.intercept_response.as_ref().map(|s| s.describe()).unwrap_or_else(|| "-".into()),
            match &self.reply {
                Some(r) => format!("{} {}B [{}]", r.header.code, self.reply_len.unwrap_or(0), crate::glue::packet_to_msg(r).describe()),
                None => "none".into(),
            }
        )
    }
}

pub struct Server {
    pub handler: BlockHandler<CEp>,
    pub budget: usize,
    pub app_calls: u64,
}

/// a request that went through intercept_request and is waiting for the application
pub struct Pending {
    req: CoapRequest<CEp>,
    ex: Exchange,
    pub passed_on: bool,
}

impl Server {
    pub fn new(budget: usize, expiry: Duration) -> Server {
        Server { handler: BlockHandler::new(BlockHandlerConfig { max_total_message_size: budget, cache_expiry_duration: expiry }), budget, app_calls: 0 }
    }

    /// One exchange, datagram in, datagram out.  `app` is consulted only when the handler
    /// passes the request on.
    pub fn exchange(&mut self, datagram: &[u8], ep: u32, app: &mut dyn FnMut(&CoapRequest<CEp>) -> AppReply) -> Exchange {
        let packet = Packet::from_bytes(datagram).expect("harness generated an undecodable request");
        let mut req = CoapRequest::from_packet(packet, CEp::new(ep));
        self.exchange_request(&mut req, app)
    }

    /// Like `exchange`, but `between` runs after intercept_request has passed the request on and
    /// before the application's reply goes through intercept_response: other requests that the
    /// server handles while this one is still being worked on.
    pub fn exchange_overlapped(&mut self, datagram: &[u8], ep: u32, app: &mut dyn FnMut(&CoapRequest<CEp>) -> AppReply, between: &mut dyn FnMut(&mut Server)) -> Exchange {
        let pending = self.take_in(datagram, ep);
        if pending.passed_on {
            between(self);
        }
        self.answer(pending, app)
    }

    /// First half of an exchange: the request goes through intercept_request only.  When the
    /// handler passes it on, it stays pending (a slow or asynchronous application) until `answer`.
    pub fn take_in(&mut self, datagram: &[u8], ep: u32) -> Pending {
        let packet = Packet::from_bytes(datagram).expect("harness generated an undecodable request");
        let mut req = CoapRequest::from_packet(packet, CEp::new(ep));
        let mut ex = Exchange {
            intercept_request: Step::Ok(false),
            app_called: false,
            app_saw_payload: None,
            intercept_response: None,
            error_applied: None,
            reply: None,
            reply_len: None,
            reply_encode_error: None,
        };
        let first = {
            let handler = &mut self.handler;
            guard(|| handler.intercept_request(&mut req))
        };
        ex.intercept_request = match first {
            Ok(Ok(b)) => Step::Ok(b),
            Ok(Err(e)) => Step::Err(e),
            Err(p) => Step::Panic(p),
        };
        let mut passed_on = false;
        match &ex.intercept_request {
            Step::Panic(_) => {}
            Step::Err(e) => ex.error_applied = Some(req.apply_from_error(e.clone())),
            Step::Ok(true) => {}
            Step::Ok(false) => passed_on = true,
        }
        Pending { req, ex, passed_on }
    }

    /// The application renders ANOTHER reply for a request it has been handed before (a notification
    /// for an observed resource, a separate response, the reply to a retransmission): a fresh
    /// response object for the same request goes through intercept_response, no intercept_request.
    pub fn rerender(&mut self, datagram: &[u8], ep: u32, app: &mut dyn FnMut(&CoapRequest<CEp>) -> AppReply) -> Exchange {
        let packet = Packet::from_bytes(datagram).expect("harness generated an undecodable request");
        let req = CoapRequest::from_packet(packet, CEp::new(ep));
        let ex = Exchange { intercept_request: Step::Ok(false), app_called: false, app_saw_payload: None, intercept_response: None, error_applied: None, reply: None, reply_len: None, reply_encode_error: None };
        self.answer(Pending { req, ex, passed_on: true }, app)
    }

    /// Second half: the application answers a pending request and the reply goes through
    /// intercept_response; for a request the handler answered itself only the reply is rendered.
    pub fn answer(&mut self, pending: Pending, app: &mut dyn FnMut(&CoapRequest<CEp>) -> AppReply) -> Exchange {
        let Pending { mut req, mut ex, passed_on } = pending;
        if let Step::Panic(_) = &ex.intercept_request {
            return ex;
        }
        if passed_on {
            self.app_calls += 1;
            ex.app_called = true;
            ex.app_saw_payload = Some(req.message.payload.clone());
            let reply = app(&req);
            if let Some(resp) = req.response.as_mut() {
                resp.message.header.code = MessageClass::from(reply.code);
                for (n, v) in &reply.options {
                    resp.message.add_option(CoapOption::from(*n), v.clone());
                }
                resp.message.payload = reply.payload;
            }
            let handler = &mut self.handler;
            ex.intercept_response = Some(match guard(|| handler.intercept_response(&mut req)) {
                Ok(Ok(b)) => Step::Ok(b),
                Ok(Err(e)) => Step::Err(e),
                Err(p) => Step::Panic(p),
            });
            if let Some(Step::Err(e)) = &ex.intercept_response {
                ex.error_applied = Some(req.apply_from_error(e.clone()));
            }
            if let Some(Step::Panic(_)) = &ex.intercept_response {
                return ex;
            }
        }
        if let Some(resp) = req.response.as_ref() {
            match guard(|| resp.message.to_bytes_unlimited()) {
                Ok(Ok(bytes)) => {
                    ex.reply_len = Some(bytes.len());
                    match Packet::from_bytes(&bytes) {
                        Ok(p) => ex.reply = Some(p),
                        Err(e) => ex.reply_encode_error = Some(format!("client cannot decode reply: {:?}", e)),
                    }
                }
                Ok(Err(e)) => ex.reply_encode_error = Some(format!("{:?}", e)),
                Err(p) => ex.reply_encode_error = Some(p.text()),
            }
        }
        ex
    }

    pub fn exchange_request(&mut self, req: &mut CoapRequest<CEp>, app: &mut dyn FnMut(&CoapRequest<CEp>) -> AppReply) -> Exchange {
        let mut ex = Exchange {
            intercept_request: Step::Ok(false),
            app_called: false,
            app_saw_payload: None,
            intercept_response: None,
            error_applied: None,
            reply: None,
            reply_len: None,
            reply_encode_error: None,
        };
        let handler = &mut self.handler;
        ex.intercept_request = match guard(|| handler.intercept_request(req)) {
            Ok(Ok(b)) => Step::Ok(b),
            Ok(Err(e)) => Step::Err(e),
            Err(p) => Step::Panic(p),
        };
        match &ex.intercept_request {
            Step::Ok(true) => {}
            Step::Ok(false) => {
                self.app_calls += 1;
                ex.app_called = true;
                ex.app_saw_payload = Some(req.message.payload.clone());
                let reply = app(req);
                if let Some(resp) = req.response.as_mut() {
                    resp.message.header.code = MessageClass::from(reply.code);
                    for (n, v) in &reply.options {
                        resp.message.add_option(CoapOption::from(*n), v.clone());
                    }
                    resp.message.payload = reply.payload;
                }
                ex.intercept_response = Some(match guard(|| handler.intercept_response(req)) {
                    Ok(Ok(b)) => Step::Ok(b),
                    Ok(Err(e)) => Step::Err(e),
                    Err(p) => Step::Panic(p),
                });
                if let Some(Step::Err(e)) = &ex.intercept_response {
                    ex.error_applied = Some(req.apply_from_error(e.clone()));
                }
            }
            Step::Err(e) => {
                ex.error_applied = Some(req.apply_from_error(e.clone()));
            }
            Step::Panic(_) => return ex,
        }
        if let Some(Step::Panic(_)) = &ex.intercept_response {
            return ex;
        }
        if let Some(resp) = req.response.as_ref() {
            match guard(|| resp.message.to_bytes_unlimited()) {
                Ok(Ok(bytes)) => {
                    ex.reply_len = Some(bytes.len());
                    match Packet::from_bytes(&bytes) {
                        Ok(p) => ex.reply = Some(p),
                        Err(e) => ex.reply_encode_error = Some(format!("client cannot decode reply: {:?}", e)),
                    }
                }
                Ok(Err(e)) => ex.reply_encode_error = Some(format!("{:?}", e)),
                Err(p) => ex.reply_encode_error = Some(p.text()),
            }
        }
        ex
    }
}

// ------------------------------------------------------------------------------------------
// request construction on the client side

#[derive(Clone, Debug)]
pub struct ReqSpec {
    pub typ: u8,
    pub code: u8,
    pub mid: u16,
    pub token: Vec<u8>,
    /// Uri-Path segments (raw bytes, so non-UTF-8 segments are possible)
    pub path: Vec<Vec<u8>>,
    pub block1: Option<(u32, bool, u8)>,
    pub block2: Option<(u32, bool, u8)>,
    pub extra: Vec<(u16, Vec<u8>)>,
    pub payload: Vec<u8>,
}

impl ReqSpec {
    pub fn new(code: u8, path: &[&str]) -> ReqSpec {
        ReqSpec { typ: 0, code, mid: 1, token: vec![], path: path.iter().map(|s| s.as_bytes().to_vec()).collect(), block1: None, block2: None, extra: vec![], payload: vec![] }
    }
    pub fn packet(&self) -> Packet {
        let mut p = Packet::new();
        p.header.set_type(crate::glue::mtype(self.typ));
        p.header.code = MessageClass::from(self.code);
        p.header.message_id = self.mid;
        p.set_token(self.token.clone());
        for seg in &self.path {
            p.add_option(CoapOption::UriPath, seg.clone());
        }
        if let Some((num, more, szx)) = self.block1 {
            p.add_option(CoapOption::Block1, block_bytes(num, more, szx));
        }
        if let Some((num, more, szx)) = self.block2 {
            p.add_option(CoapOption::Block2, block_bytes(num, more, szx));
        }
        for (n, v) in &self.extra {
            p.add_option(CoapOption::from(*n), v.clone());
        }
        p.payload = self.payload.clone();
        p
    }
    pub fn bytes(&self) -> Vec<u8> {
        self.packet().to_bytes_unlimited().expect("request encodes")
    }
    /// encoded length without payload and marker
    pub fn overhead(&self) -> usize {
        let mut p = self.packet();
        p.payload.clear();
        p.to_bytes_unlimited().unwrap().len()
    }
    pub fn describe(&self) -> String {
        format!(
            "{} /{} mid={} tok={} b1={:?} b2={:?} extra={}B payload={}B",
            MessageClass::from(self.code),
            self.path.iter().map(|s| String::from_utf8_lossy(s).to_string()).collect::<Vec<_>>().join("/"),
            self.mid,
            crate::rng::hex(&self.token),
            self.block1,
            self.block2,
            self.extra.iter().map(|o| o.1.len() + 2).sum::<usize>(),
            self.payload.len()
        )
    }
}

/// RFC 7959 block option value, written independently of the crate (NUM up to 20 bits).
pub fn block_bytes(num: u32, more: bool, szx: u8) -> Vec<u8> {
    let v: u64 = (num as u64) << 4 | (more as u64) << 3 | (szx & 7) as u64;
    crate::optval::min_be(v)
}

pub fn parse_block(raw: &[u8]) -> Option<(u32, bool, u8)> {
    if raw.len() > 3 {
        return None;
    }
    let v = crate::optval::be_value(raw);
    Some(((v >> 4) as u32, v & 8 != 0, (v & 7) as u8))
}

pub fn szx_size(szx: u8) -> usize {
    1usize << (szx as usize + 4)
}

/// non-payload size of the reply the application would send for `req` (before the handler adds
/// block options): header + token + options.
pub fn reply_overhead(token_len: usize, options: &[(u16, Vec<u8>)]) -> usize {
    let mut sorted: Vec<(u16, Vec<u8>)> = options.to_vec();
    sorted.sort_by_key(|o| o.0);
    let m = crate::refcodec::Msg { ver: 1, typ: 2, token: vec![0; token_len], code: 0x45, mid: 0, options: sorted, payload: vec![] };
    crate::refcodec::wire_len(&m).unwrap()
}

pub fn body_bytes(seed: u64, len: usize) -> Vec<u8> {
    // every position identifiable: byte i depends on seed and i
    (0..len).map(|i| (crate::rng::mix(&[seed, i as u64 / 8]) >> ((i % 8) * 8)) as u8).collect()
}
