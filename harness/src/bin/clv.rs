//! clv <property> --lane L --level N --budget B --seed S --shard i --nshards n --out file
//! clv replay-datagram <hex>

use clvlib::ctx::Ctx;
use clvlib::report::Report;
use std::io::Write;

fn arg<'a>(args: &'a [String], name: &str) -> Option<&'a str> {
    args.iter().position(|a| a == name).and_then(|i| args.get(i + 1)).map(|s| s.as_str())
}

fn main() {
    let args: Vec<String> = std::env::args().collect();
    if args.len() < 2 {
        eprintln!("usage: clv <property|replay-datagram> ...");
        std::process::exit(2);
    }
    clvlib::panicwatch::install();
    let cmd = args[1].as_str();
    if cmd == "replay-datagram" {
        let b = clvlib::rng::unhex(&args[2]).expect("hex");
        clvlib::codec::replay_datagram(&b);
        return;
    }
    #[cfg(feature = "std")]
    if cmd == "cold-c13" {
        // exactly one constructor call in a fresh process (nothing has warmed any process-wide state)
        let n: usize = args[2].parse().expect("num");
        let more = args[3] == "true";
        let size: usize = args[4].parse().expect("size");
        println!("{}", clvlib::blockval::cold_call(n, more, size));
        return;
    }
    let num = |n: &str, d: u64| arg(&args, n).map(|v| v.parse::<u64>().expect("number")).unwrap_or(d);
    let lane = arg(&args, "--lane").unwrap_or("dbg").to_string();
    let mut ctx = Ctx {
        prop: cmd.to_string(),
        lane: lane.clone(),
        level: num("--level", 1) as u32,
        budget: num("--budget", 1000),
        seed: num("--seed", 1),
        shard: num("--shard", 0),
        nshards: num("--nshards", 1).max(1),
        rep: Report::new(cmd, &lane),
    };
    let t0 = std::time::SystemTime::now();
    if !clvlib::dispatch(&mut ctx) {
        eprintln!("unknown property {}", cmd);
        std::process::exit(2);
    }
    let wall = t0.elapsed().map(|d| d.as_secs_f64()).unwrap_or(0.0);
    ctx.rep.add("wall_ms", (wall * 1000.0) as u64);
    let json = ctx.rep.to_json();
    match arg(&args, "--out") {
        Some(path) if path != "-" => {
            let mut f = std::fs::File::create(path).expect("create out");
            f.write_all(json.as_bytes()).expect("write out");
        }
        _ => {
            println!("CLV-REPORT {}", json);
        }
    }
    eprintln!(
        "clv {} lane={} shard={}/{} evaluations={} violations={} wall={:.2}s",
        cmd,
        lane,
        ctx.shard,
        ctx.nshards,
        ctx.rep.evaluations,
        ctx.rep.n_violations(),
        wall
    );
}
