//! C13 — block option value codec (RFC 7959 section 2.2).  Oracle: arithmetic.

use crate::ctx::Ctx;
use crate::optval::{be_value, min_be};
use crate::panicwatch::{guard, set_case_str};
use crate::rng::hex;
use coap_lite::block_handler::BlockValue;
use std::convert::TryFrom;

/// one `BlockValue::new` call, rendered as a line (used by `clv cold-c13` in a fresh process)
pub fn cold_call(num: usize, more: bool, size: usize) -> String {
    match guard(|| BlockValue::new(num, more, size)) {
        Err(p) => format!("CLV-COLD panic {}", p.text().replace('\n', " ")),
        Ok(Ok(v)) => format!("CLV-COLD ok {} {} {}", v.num, v.more, v.size_exponent),
        Ok(Err(_)) => "CLV-COLD err".to_string(),
    }
}

/// Cold-start probes: each constructor call runs as the FIRST AND ONLY call of a fresh process,
/// so that process-wide state (memo tables, lazily initialised statics) is in its initial
/// condition - something no call made from inside a long-running check can observe.
fn cold_start_probes(rep: &mut crate::report::Report, level: u32) {
    if cfg!(miri) {
        return; // no subprocesses under the interpreter
    }
    let exe = match std::env::current_exe() {
        Ok(e) => e,
        Err(_) => {
            rep.count("cold_start_probes_unavailable");
            return;
        }
    };
    let mut sizes: Vec<usize> = vec![0, 1, 15, 16, 17, 31, 1023, 1024, 2047, 2048, 4095, 4096, 4097, usize::MAX, usize::MAX - 255];
    for k in 0..usize::BITS {
        sizes.push(1usize << k);
    }
    if level == 0 {
        sizes = vec![16, 4096, 1usize << 56, 1usize << 63];
    }
    for (i, &size) in sizes.iter().enumerate() {
        let (num, more) = [(0usize, false), (65535, true), (7, true), (65536, false)][i % 4];
        rep.eval();
        let out = std::process::Command::new(&exe).args(["cold-c13", &num.to_string(), &more.to_string(), &size.to_string()]).output();
        let line = match out {
            Ok(o) => String::from_utf8_lossy(&o.stdout).lines().find(|l| l.starts_with("CLV-COLD")).map(|l| l.to_string()),
            Err(_) => None,
        };
        let wit = format!("first and only call of a fresh process: BlockValue::new({}, {}, {})", num, more, size);
        let should_fail = size == 0 || size >= 4096 || num > 65535;
        match line.as_deref() {
            None => rep.count("cold_start_probes_unavailable"),
            Some("CLV-COLD err") if should_fail => rep.count("cold_start_probes_ok"),
            Some("CLV-COLD err") => rep.violation("block-new-rejects-valid:cold-start", "constructor refused a representable value".into(), wit),
            Some(l) if l.starts_with("CLV-COLD panic") => rep.violation("block-new-panic:cold-start", l.to_string(), wit),
            Some(l) => {
                let want_szx = ((usize::BITS - 1 - size.max(1).leading_zeros()) as usize).max(4) - 4;
                let want = format!("CLV-COLD ok {} {} {}", num, more, want_szx);
                if should_fail {
                    rep.violation("block-new-accepts-invalid:cold-start", format!("the call returned: {}", &l[9..]), wit);
                } else if l != want {
                    rep.violation("block-new-value:cold-start", format!("got `{}`, want `{}`", l, want), wit);
                } else {
                    rep.count("cold_start_probes_ok");
                }
            }
        }
    }
}

pub fn run_c13(ctx: &mut Ctx) {
    let (level, shard, nshards) = (ctx.level, ctx.shard, ctx.nshards);
    let mut r = ctx.rng(13);
    let budget = ctx.budget;
    let rep = &mut ctx.rep;
    rep.exhaustive = false;
    rep.note("enumerated completely: num 0..65535 x more x szx 0..7 (encode/decode), all byte strings of <= 2 bytes (<= 3 at the thorough level), all ordered pairs of the interesting constructor sizes; random longer strings are sampled");
    set_case_str("C13 block values");
    // ---- encode/decode: num x more x szx
    let step = if level == 0 { 997 } else { 1 };
    let mut num = 0u32;
    while num <= 65535 {
        if (num as u64) % nshards == shard {
            for more in [false, true] {
                for szx in 0..8u8 {
                    rep.eval();
                    let bv = BlockValue { num: num as u16, more, size_exponent: szx };
                    let scalar: u64 = (num as u64) << 4 | (more as u64) << 3 | szx as u64;
                    let want = min_be(scalar);
                    let wit = format!("BlockValue{{num:{},more:{},szx:{}}}", num, more, szx);
                    match guard(|| (bv.size(), Vec::<u8>::from(bv.clone()))) {
                        Err(p) => {
                            rep.violation(&p.sig(), p.text(), wit);
                            continue;
                        }
                        Ok((size, enc)) => {
                            if size != 1usize << (szx + 4) {
                                rep.violation("block-size", format!("size() = {} for szx {}", size, szx), wit.clone());
                            }
                            if enc != want {
                                rep.violation(
                                    if num >= 4096 { "block-encode-num>=4096" } else { "block-encode" },
                                    format!("encodes to {} instead of {} (NUM<<4|M<<3|SZX = {:#x})", hex(&enc), hex(&want), scalar),
                                    wit,
                                );
                                continue;
                            }
                            match guard(|| BlockValue::try_from(enc.clone())) {
                                Ok(Ok(back)) if back == bv => rep.count("roundtrip_ok"),
                                other => rep.violation("block-decode-roundtrip", format!("{} decodes to {:?}", hex(&enc), other.map_err(|p| p.text())), wit),
                            }
                        }
                    }
                    if num % 257 == 0 || num >= 4090 && num <= 4100 {
                        rep.distinct((num as u64) << 4 | (more as u64) << 3 | szx as u64);
                    }
                }
            }
        }
        num += step;
    }
    // ---- decode all byte strings of length <= 3 (thorough) / <= 2 + sampled 3 (quick)
    let mut idx = 0u64;
    let mut check_decode = |b: &[u8], rep: &mut crate::report::Report| {
        rep.eval();
        let res = guard(|| BlockValue::try_from(b.to_vec()));
        let scalar = be_value(b);
        let canonical = min_be(scalar) == b;
        let num = scalar >> 4;
        let want = BlockValue { num: num as u16, more: scalar & 8 != 0, size_exponent: (scalar & 7) as u8 };
        match res {
            Err(p) => rep.violation(&p.sig(), p.text(), hex(b)),
            Ok(r) => {
                if b.len() > 3 && num <= 65535 {
                    // longer than any RFC 7959 block value (0-3 bytes): the property is silent, so
                    // either an error or the arithmetically correct triple
                    match r {
                        Ok(v) if v != want => rep.violation("block-decode-value", format!("{} decodes to {:?}, want {:?} or an error", hex(b), v, want), hex(b)),
                        Ok(_) => rep.count("decode_overlong_accepted_correctly"),
                        Err(_) => rep.count("decode_overlong_rejected"),
                    }
                } else if num > 65535 {
                    // NUM does not fit the field type: must be refused, never truncated
                    if let Ok(v) = r {
                        rep.violation("block-decode-truncates-num", format!("NUM {} does not fit but decodes to {:?}", num, v), hex(b));
                    } else {
                        rep.count("decode_num_too_large_rejected");
                    }
                } else {
                    match r {
                        Ok(v) if v == want => rep.count(if canonical { "decode_canonical_ok" } else { "decode_noncanonical_ok" }),
                        Ok(v) => rep.violation("block-decode-value", format!("{} decodes to {:?}, want {:?}", hex(b), v, want), hex(b)),
                        Err(e) => {
                            if canonical {
                                rep.violation(
                                    if b.len() == 3 { "block-decode-rejects-3-byte" } else { "block-decode-rejects-canonical" },
                                    format!("canonical encoding of {:?} rejected: {}", want, e.message),
                                    hex(b),
                                );
                            } else {
                                rep.count("decode_noncanonical_rejected");
                            }
                        }
                    }
                }
            }
        }
    };
    let mut buf = Vec::new();
    for len in 0..=3usize {
        let n = 1u64 << (8 * len);
        let stride = if level == 0 {
            [1u64, 7, 1021, 262_147][len]
        } else if len == 3 && level < 2 {
            61
        } else {
            1
        };
        let mut v = 0u64;
        while v < n {
            idx += 1;
            if idx % nshards == shard {
                buf.clear();
                for k in (0..len).rev() {
                    buf.push((v >> (8 * k)) as u8);
                }
                check_decode(&buf, rep);
            }
            v += stride;
        }
    }
    for _ in 0..budget.min(50_000) {
        let len = r.urange(3, 6);
        let mut b = r.bytes(len);
        if r.bool() {
            b[0] = 0;
        }
        check_decode(&b, rep);
    }
    // ---- construction from a byte size
    let nums: Vec<usize> = (0..=4097usize).step_by(if level == 0 { 513 } else { 1 }).chain([65535usize, 65536, 65537, usize::MAX, usize::MAX / 2]).collect();
    let mut sizes: Vec<usize> = (0..=8200usize).collect();
    for k in 0..usize::BITS {
        let p = 1usize << k;
        sizes.push(p);
        sizes.push(p.wrapping_sub(1));
        sizes.push(p.wrapping_add(1));
    }
    sizes.push(usize::MAX);
    sizes.sort();
    sizes.dedup();
    let mut cidx = 0u64;
    for &num in nums.iter() {
        // every size for a handful of block numbers, boundary sizes for all
        let dense = level > 0 && (matches!(num, 0 | 1 | 4095 | 4096 | 65535 | 65536) || num == usize::MAX);
        for &size in sizes.iter() {
            if !dense && !(size <= 40 || (size >= 1020 && size <= 1030) || (size >= 2040 && size <= 2050) || (size >= 4090 && size <= 4100) || size > 8200) {
                continue;
            }
            cidx += 1;
            if cidx % nshards != shard {
                continue;
            }
            rep.eval();
            let more = (num ^ size) & 1 == 1;
            let res = guard(|| BlockValue::new(num, more, size));
            let wit = format!("BlockValue::new({}, {}, {})", num, more, size);
            let should_fail = size == 0 || size >= 4096 || num > 65535;
            match res {
                Err(p) => rep.violation(&p.sig(), p.text(), wit),
                Ok(Ok(v)) => {
                    if should_fail {
                        rep.violation("block-new-accepts-invalid", format!("accepted: {:?}", v), wit);
                    } else {
                        let e = (usize::BITS - 1 - size.leading_zeros()) as usize; // floor(log2 size)
                        let want_szx = e.max(4) - 4;
                        if v.size_exponent as usize != want_szx || v.num as usize != num || v.more != more {
                            rep.violation("block-new-value", format!("got {:?}, want szx {}", v, want_szx), wit);
                        } else {
                            rep.count("new_ok");
                            rep.distinct(0x9_0000_0000 + (want_szx as u64) * 8 + (num.min(5000) as u64) * 64);
                        }
                    }
                }
                Ok(Err(_)) => {
                    if should_fail {
                        rep.count("new_rejected_as_required");
                    } else {
                        rep.violation("block-new-rejects-valid", "constructor refused a representable value".to_string(), wit);
                    }
                }
            }
        }
    }
    // ---- ... nor does a value decoded just before influence it (a client's Block option, then the next block)
    if shard == 0 || level == 0 {
        for num in [0u32, 1, 14, 4095, 4096, 65534, 65535] {
            for more in [false, true] {
                for szx in 0..7u8 {
                    let scalar: u64 = (num as u64) << 4 | (more as u64) << 3 | szx as u64;
                    let enc = min_be(scalar);
                    let size = 1usize << (szx + 4);
                    for (n2, m2, s2) in [(num as usize + 1, false, size), (num as usize + 1, true, size), (num as usize, more, size), (num as usize + 1, true, size + 1), (65536, true, size), (0, true, 0), (1, false, 4096)] {
                        rep.eval();
                        let res = guard(|| (BlockValue::try_from(enc.clone()).is_ok(), BlockValue::new(n2, m2, s2)));
                        let should_fail = s2 == 0 || s2 >= 4096 || n2 > 65535;
                        let wit = format!("decode {} (num {}, more {}, szx {}), then BlockValue::new({}, {}, {})", hex(&enc), num, more, szx, n2, m2, s2);
                        match res {
                            Err(p) => rep.violation(&p.sig(), p.text(), wit),
                            Ok((true, Ok(v))) if !should_fail && v.num as usize == n2 && v.more == m2 && (v.size_exponent as usize) == ((usize::BITS - 1 - s2.leading_zeros()) as usize).max(4) - 4 => rep.count("new_after_decode_ok"),
                            Ok((true, Err(_))) if should_fail => rep.count("new_after_decode_ok"),
                            Ok((dec_ok, other)) => rep.violation("block-new-depends-on-previous-decode", format!("decode ok {}; constructor returned {:?}", dec_ok, other), wit),
                        }
                    }
                }
            }
        }
    }
    // ---- ... nor do runs of constructions (blocks n, n+1, n+2 of a transfer, then the next one at a size a few bytes short)
    if shard == 0 || level == 0 {
        for szx in 0..7u32 {
            let p = 16usize << szx;
            for start in [0usize, 5, 4094, 65532] {
                for run in [1usize, 2, 3, 4, 6] {
                    for t in [p.wrapping_sub(1), p.wrapping_sub(8), p.wrapping_sub(12), p.wrapping_sub(13), p, p + 1, p + 12, p / 2, 2 * p - 1] {
                        for last_more in [false, true] {
                            rep.eval();
                            let res = guard(|| {
                                let mut ok = true;
                                for k in 0..run {
                                    ok &= BlockValue::new(start + k, true, p + (k % 3)).is_ok();
                                }
                                (ok, BlockValue::new(start + run, last_more, t))
                            });
                            let should_fail = t == 0 || t >= 4096 || start + run > 65535;
                            let wit = format!("BlockValue::new({}..{}, true, ~{}) x{}, then BlockValue::new({}, {}, {})", start, start + run, p, run, start + run, last_more, t);
                            match res {
                                Err(pn) => rep.violation(&pn.sig(), pn.text(), wit),
                                Ok((_, Ok(v))) if !should_fail && v.num as usize == start + run && v.more == last_more && (v.size_exponent as usize) == ((usize::BITS - 1 - t.leading_zeros()) as usize).max(4) - 4 => rep.count("new_after_run_ok"),
                                Ok((_, Err(_))) if should_fail => rep.count("new_after_run_ok"),
                                Ok((run_ok, other)) => rep.violation("block-new-depends-on-previous-call", format!("run accepted {}; the last constructor call returned {:?}", run_ok, other), wit),
                            }
                        }
                    }
                }
            }
        }
    }
    // ---- ... nor does what the block handler did on this thread (a request it refused during size negotiation)
    if shard == 0 || level == 0 {
        use coap_lite::{BlockHandler, BlockHandlerConfig, CoapRequest, Packet};
        for (budget_bytes, pathlen, also_response) in [(32usize, 60usize, false), (32, 60, true), (1152, 1300, false), (1152, 1300, true), (64, 10, false), (16, 1, false), (16, 1, true)] {
            let mut handler: BlockHandler<u8> = BlockHandler::new(BlockHandlerConfig { max_total_message_size: budget_bytes, ..Default::default() });
            let mut p = Packet::new();
            p.add_option(coap_lite::CoapOption::UriPath, vec![b'x'; pathlen]);
            p.add_option(coap_lite::CoapOption::Block2, vec![0x06]);
            p.payload = vec![1; 40];
            let mut rq = CoapRequest::from_packet(p, 1u8);
            let first = guard(|| handler.intercept_request(&mut rq).is_err());
            if let Some(resp) = rq.response.as_mut() {
                resp.message.payload = vec![7; 5000];
            }
            let second = if also_response { guard(|| handler.intercept_response(&mut rq).is_err()) } else { Ok(false) };
            for size in [4096usize, 4097, 8192, 1 << 20, usize::MAX, 0, 2048, 100] {
                rep.eval();
                let res = guard(|| BlockValue::new(3, true, size));
                let should_fail = size == 0 || size >= 4096;
                let wit = format!("a block handler with budget {} handled a request with a {}-byte path (intercept_request refused: {:?}, intercept_response refused: {:?}); then BlockValue::new(3, true, {})", budget_bytes, pathlen, first.as_ref().ok(), second.as_ref().ok(), size);
                match res {
                    Err(pn) => rep.violation(&pn.sig(), pn.text(), wit),
                    Ok(Ok(v)) if !should_fail && (v.size_exponent as usize) == ((usize::BITS - 1 - size.leading_zeros()) as usize).max(4) - 4 => rep.count("new_after_handler_call_ok"),
                    Ok(Err(_)) if should_fail => rep.count("new_after_handler_call_ok"),
                    Ok(other) => rep.violation("block-new-depends-on-handler-history", format!("constructor returned {:?}", other), wit),
                }
            }
        }
    }
    // ---- fresh-process probes
    if shard == 0 {
        cold_start_probes(rep, level);
    }
    // ---- the constructor has no memory: every ordered pair of interesting sizes, back to back
    {
        let mut interesting: Vec<usize> = (0..=20).chain(1020..=1030).chain(2040..=2050).chain(4090..=4100).chain(8185..=8200).collect();
        for k in [4usize, 5, 6, 7, 8, 9, 10, 11, 12, 13, 16, 31, 32, 63] {
            interesting.push(1usize << k);
            interesting.push((1usize << k) + 1);
            interesting.push((1usize << k) + 8);
        }
        interesting.extend_from_slice(&[usize::MAX, usize::MAX - 7, 65536 + 16, 8192 + 16, 8192 + 1024]);
        interesting.sort();
        interesting.dedup();
        if level == 0 {
            interesting = interesting.into_iter().step_by(9).chain([1usize, 8193, 16, 8208]).collect();
        }
        let oracle = |num: usize, size: usize| -> Option<u8> {
            if size == 0 || size >= 4096 || num > 65535 {
                None
            } else {
                Some(((usize::BITS - 1 - size.leading_zeros()) as usize).max(4) as u8 - 4)
            }
        };
        let mut pidx = 0u64;
        for &a in interesting.iter() {
            for &b in interesting.iter() {
                pidx += 1;
                if pidx % nshards != shard {
                    continue;
                }
                rep.eval();
                let res = guard(|| (BlockValue::new(1, false, a), BlockValue::new(2, true, b)));
                match res {
                    Err(p) => rep.violation(&p.sig(), p.text(), format!("BlockValue::new(1,false,{}) then BlockValue::new(2,true,{})", a, b)),
                    Ok((ra, rb)) => {
                        let ga = ra.ok().map(|v| v.size_exponent);
                        let gb = rb.ok().map(|v| v.size_exponent);
                        if ga != oracle(1, a) || gb != oracle(2, b) {
                            rep.violation("block-new-depends-on-previous-call", format!("new(.., {}) -> szx {:?} (want {:?}); then new(.., {}) -> szx {:?} (want {:?})", a, ga, oracle(1, a), b, gb, oracle(2, b)), format!("BlockValue::new(1,false,{}) then BlockValue::new(2,true,{})", a, b));
                        } else {
                            rep.count("constructor_pairs_ok");
                        }
                    }
                }
            }
        }
        rep.floor("constructor_pairs_ok", 10);
    }
    rep.sample(|| format!("BlockValue{{num:4096,more:true,szx:2}} -> {}", hex(&Vec::<u8>::from(BlockValue { num: 4096, more: true, size_exponent: 2 }))));
    rep.sample(|| format!("BlockValue::try_from([0x01,0x00,0x0a]) -> {:?}", BlockValue::try_from(vec![1u8, 0, 0x0a]).map_err(|e| e.message)));
    rep.sample(|| format!("BlockValue::new(3, true, 1158) -> {:?}", BlockValue::new(3, true, 1158)));
    rep.floor("roundtrip_ok", 100);
    rep.floor("new_ok", 50);
    rep.floor("new_rejected_as_required", 20);
    rep.floor("decode_canonical_ok", 100);
}
