//! C12 — concurrent block transfers are isolated; replies belong to the current request.
//!
//! Transfers are scripted (request lists fixed in advance), so every interleaving of whole
//! exchanges — and, in the fine mode, of the two halves of an exchange — can be enumerated.
//! Oracle: the per-transfer transcript in the interleaved run equals the transcript of the
//! same script run alone on a fresh handler, and every reply carries the message id and
//! token of the request it answers (each request has a unique id and token).

use crate::blockclient::*;
use crate::ctx::Ctx;
use crate::glue::packet_to_msg;
use crate::panicwatch::{guard, set_case_str};
use crate::report::Report;
use crate::rng::{fnv, hex, mix};
use coap_lite::{CoapOption, CoapRequest, MessageClass, Packet};
use std::time::Duration;

const LONG: Duration = Duration::from_secs(3600);
const BUDGET: usize = 200;
thread_local! {
    /// the budget of the benches of the set that is running: BUDGET, or more when the set's requests are
    /// long themselves (paths of several hundred bytes) - a handler refuses requests above its budget,
    /// and transfers that are refused alike cannot interfere visibly
    static BENCH_BUDGET: std::cell::Cell<usize> = const { std::cell::Cell::new(BUDGET) };
}

#[derive(Clone, Debug)]
pub struct Transfer {
    pub ep: u32,
    pub code: u8,
    pub path: Vec<Vec<u8>>,
    pub requests: Vec<ReqSpec>,
    pub label: String,
}

fn key_seed(t: &Transfer) -> u64 {
    let mut v = vec![t.code];
    v.extend_from_slice(&t.ep.to_be_bytes());
    for s in &t.path {
        v.push(0x1f);
        v.extend_from_slice(s);
    }
    fnv(&v)
}

/// Application: deterministic in (endpoint, method, path, delivered payload).
fn app_reply(req: &CoapRequest<CEp>) -> AppReply {
    let code = u8::from(req.message.header.code);
    let mut v = vec![code];
    v.extend_from_slice(&req.source.as_ref().map(|e| e.0).unwrap_or(0).to_be_bytes());
    if let Some(l) = req.message.get_option(CoapOption::UriPath) {
        for s in l.iter() {
            v.push(0x1f);
            v.extend_from_slice(s);
        }
    }
    let seed = fnv(&v);
    match code {
        1 => AppReply { code: 0x45, options: vec![(12, vec![42]), (4, seed.to_be_bytes()[..4].to_vec())], payload: body_bytes(seed, 100 + (seed % 60) as usize) },
        2 => {
            // POST: "mixed" transfers get a large reply that depends on what was uploaded
            let h = fnv(&req.message.payload);
            AppReply { code: 0x44, options: vec![(4, h.to_be_bytes()[..4].to_vec())], payload: body_bytes(seed ^ h, 90 + (seed % 50) as usize) }
        }
        _ => {
            let h = fnv(&req.message.payload);
            AppReply { code: 0x44, options: vec![], payload: format!("{:016x}:{}", h, req.message.payload.len()).into_bytes() }
        }
    }
}

fn download_script(ep: u32, path: &[&[u8]], szx: u8, nreq: usize, label: &str) -> Transfer {
    let mut requests = Vec::new();
    for i in 0..nreq {
        let mut r = ReqSpec::new(1, &[]);
        r.path = path.iter().map(|s| s.to_vec()).collect();
        r.block2 = Some((i as u32, false, szx));
        requests.push(r);
    }
    Transfer { ep, code: 1, path: path.iter().map(|s| s.to_vec()).collect(), requests, label: label.to_string() }
}

/// a download that does not begin at block 0 (a client resuming, or fetching blocks at random)
fn download_script_from(ep: u32, path: &[&[u8]], szx: u8, start: u32, nreq: usize, label: &str) -> Transfer {
    let mut t = download_script(ep, path, szx, nreq, label);
    for (i, r) in t.requests.iter_mut().enumerate() {
        r.block2 = Some((start + i as u32, false, szx));
    }
    t
}

fn with_query(mut t: Transfer, query: &[&[u8]]) -> Transfer {
    for r in t.requests.iter_mut() {
        for q in query {
            r.extra.push((15, q.to_vec()));
        }
    }
    t.label = format!("{} ?{}", t.label, query.iter().map(|q| String::from_utf8_lossy(q).to_string()).collect::<Vec<_>>().join("&"));
    t
}

fn upload_script(ep: u32, code: u8, path: &[&[u8]], szx: u8, nblocks: usize, then_fetch: usize, label: &str) -> Transfer {
    let s = szx_size(szx);
    let mut t = Transfer { ep, code, path: path.iter().map(|s| s.to_vec()).collect(), requests: vec![], label: label.to_string() };
    let body = body_bytes(key_seed(&t) ^ 0x55, s * (nblocks - 1) + 5);
    for i in 0..nblocks {
        let mut r = ReqSpec::new(code, &[]);
        r.path = t.path.clone();
        r.block1 = Some((i as u32, i + 1 < nblocks, szx));
        r.payload = body[i * s..((i + 1) * s).min(body.len())].to_vec();
        t.requests.push(r);
    }
    // for POST the reply is large: continue fetching its blocks (Block2) with the same method
    for i in 0..then_fetch {
        let mut r = ReqSpec::new(code, &[]);
        r.path = t.path.clone();
        r.block2 = Some(((i + 1) as u32, false, 1));
        t.requests.push(r);
    }
    t
}

#[derive(Clone, Debug, PartialEq)]
struct Obs {
    /// reply with message id and token blanked: (type, code, options, payload)
    reply: Option<(u8, u8, Vec<(u16, Vec<u8>)>, Vec<u8>)>,
    app_called: bool,
    delivered: Option<Vec<u8>>,
    intercept_request: String,
    intercept_response: String,
}

struct Pending {
    req: CoapRequest<CEp>,
    spec_mid: u16,
    spec_tok: Vec<u8>,
    needs_b: bool,
    obs: Obs,
}

fn observe_reply(req: &CoapRequest<CEp>, mid: u16, tok: &[u8]) -> Result<Option<(u8, u8, Vec<(u16, Vec<u8>)>, Vec<u8>)>, String> {
    match &req.response {
        None => Ok(None),
        Some(resp) => {
            let bytes = resp.message.to_bytes_unlimited().map_err(|e| format!("reply does not encode: {:?}", e))?;
            let p = Packet::from_bytes(&bytes).map_err(|e| format!("reply does not decode: {:?}", e))?;
            if p.header.message_id != mid || p.get_token() != tok {
                return Err(format!("reply carries mid {} token {} but answers the request with mid {} token {}", p.header.message_id, hex(p.get_token()), mid, hex(tok)));
            }
            let m = packet_to_msg(&p);
            Ok(Some((m.typ, m.code, m.options, m.payload)))
        }
    }
}

struct Bench {
    server: Server,
    next_id: u32,
}

impl Bench {
    fn new() -> Bench {
        Bench { server: Server::new(BENCH_BUDGET.with(|b| b.get()), LONG), next_id: 1 }
    }
    /// first half: parse, intercept_request.  Completed here when the handler answers itself.
    fn phase_a(&mut self, t: &Transfer, i: usize) -> Result<Pending, (String, String)> {
        let mut spec = t.requests[i].clone();
        self.next_id += 1;
        spec.mid = (self.next_id as u16).wrapping_mul(257).wrapping_add(3);
        // fresh token per request, and of a length that changes from request to request within a
        // transfer (0..8 bytes; the same length in the solo and in the interleaved run)
        let tkl = ((key_seed(t) % 9) as usize + i * 5) % 9;
        let id = 0xA000_0000u32 | self.next_id;
        let mut tok = id.to_be_bytes().to_vec();
        tok.extend_from_slice(&(!id).to_be_bytes());
        tok.truncate(tkl);
        spec.token = tok;
        let packet = Packet::from_bytes(&spec.bytes()).expect("request decodes");
        let mut req = CoapRequest::from_packet(packet, CEp::new(t.ep));
        let handler = &mut self.server.handler;
        let r = guard(|| handler.intercept_request(&mut req));
        let mut obs = Obs { reply: None, app_called: false, delivered: None, intercept_request: String::new(), intercept_response: "-".into() };
        let needs_b = match r {
            Err(p) => return Err((p.sig(), p.text())),
            Ok(Ok(true)) => {
                obs.intercept_request = "Ok(true)".into();
                false
            }
            Ok(Ok(false)) => {
                obs.intercept_request = "Ok(false)".into();
                true
            }
            Ok(Err(e)) => {
                obs.intercept_request = format!("Err({:?})", e.code);
                req.apply_from_error(e);
                false
            }
        };
        if !needs_b {
            obs.reply = observe_reply(&req, spec.mid, &spec.token).map_err(|e| ("reply-mid-or-token".to_string(), e))?;
        }
        Ok(Pending { req, spec_mid: spec.mid, spec_tok: spec.token, needs_b, obs })
    }
    /// second half: application, intercept_response
    fn phase_b(&mut self, mut p: Pending) -> Result<Obs, (String, String)> {
        if !p.needs_b {
            return Ok(p.obs);
        }
        p.obs.app_called = true;
        p.obs.delivered = Some(p.req.message.payload.clone());
        let reply = app_reply(&p.req);
        if let Some(resp) = p.req.response.as_mut() {
            resp.message.header.code = MessageClass::from(reply.code);
            for (n, v) in &reply.options {
                resp.message.add_option(CoapOption::from(*n), v.clone());
            }
            resp.message.payload = reply.payload;
        }
        let handler = &mut self.server.handler;
        let req = &mut p.req;
        match guard(|| handler.intercept_response(req)) {
            Err(pn) => return Err((pn.sig(), pn.text())),
            Ok(Ok(b)) => p.obs.intercept_response = format!("Ok({})", b),
            Ok(Err(e)) => {
                p.obs.intercept_response = format!("Err({:?})", e.code);
                p.req.apply_from_error(e);
            }
        }
        p.obs.reply = observe_reply(&p.req, p.spec_mid, &p.spec_tok).map_err(|e| ("reply-mid-or-token".to_string(), e))?;
        Ok(p.obs)
    }
}

/// transcript of one transfer run alone; also which exchanges need the second half
fn solo(t: &Transfer) -> Result<(Vec<Obs>, Vec<bool>), (String, String)> {
    let mut b = Bench::new();
    let mut tr = Vec::new();
    let mut needs = Vec::new();
    for i in 0..t.requests.len() {
        let p = b.phase_a(t, i)?;
        needs.push(p.needs_b);
        tr.push(b.phase_b(p)?);
    }
    Ok((tr, needs))
}

/// enumerate all interleavings of sequences with the given lengths (multiset permutations)
fn for_each_schedule(lens: &[usize], f: &mut dyn FnMut(&[usize]) -> bool) {
    fn rec(rem: &mut Vec<usize>, cur: &mut Vec<usize>, total: usize, f: &mut dyn FnMut(&[usize]) -> bool) -> bool {
        if cur.len() == total {
            return f(cur);
        }
        for i in 0..rem.len() {
            if rem[i] > 0 {
                rem[i] -= 1;
                cur.push(i);
                let go = rec(rem, cur, total, f);
                cur.pop();
                rem[i] += 1;
                if !go {
                    return false;
                }
            }
        }
        true
    }
    let total = lens.iter().sum();
    rec(&mut lens.to_vec(), &mut Vec::new(), total, f);
}

fn diff_obs(a: &Obs, b: &Obs) -> String {
    if a.app_called != b.app_called {
        return format!("application called {} vs {} alone", a.app_called, b.app_called);
    }
    if a.delivered != b.delivered {
        return format!("application saw a {:?}-byte body vs {:?} alone", a.delivered.as_ref().map(|d| d.len()), b.delivered.as_ref().map(|d| d.len()));
    }
    if a.intercept_request != b.intercept_request || a.intercept_response != b.intercept_response {
        return format!("entry points returned {}/{} vs {}/{} alone", a.intercept_request, a.intercept_response, b.intercept_request, b.intercept_response);
    }
    match (&a.reply, &b.reply) {
        (Some(x), Some(y)) => {
            if x.1 != y.1 {
                format!("reply code {:#x} vs {:#x} alone", x.1, y.1)
            } else if x.2 != y.2 {
                format!("reply options {:?} vs {:?} alone", x.2, y.2)
            } else if x.3 != y.3 {
                format!("reply payload ({} bytes) differs from the solo run ({} bytes)", x.3.len(), y.3.len())
            } else {
                format!("reply type {} vs {}", x.0, y.0)
            }
        }
        _ => "reply present vs absent".into(),
    }
}

struct SetSpec {
    name: &'static str,
    transfers: Vec<Transfer>,
}

fn sets(nreq: usize, three: bool) -> Vec<SetSpec> {
    let ab: [&[u8]; 2] = [b"a", b"b"];
    let a_slash_b: [&[u8]; 1] = [b"a/b"];
    let a: [&[u8]; 1] = [b"a"];
    let r: [&[u8]; 1] = [b"r"];
    let none: [&[u8]; 0] = [];
    let x: [&[u8]; 1] = [b"x"];
    let fetch = nreq.saturating_sub(3).max(1).min(2);
    let mut v = vec![
        SetSpec { name: "endpoint-differs(download)", transfers: vec![download_script(1, &ab, 1, nreq, "ep1 GET a/b"), download_script(2, &ab, 1, nreq, "ep2 GET a/b")] },
        SetSpec { name: "endpoint-differs(upload)", transfers: vec![upload_script(1, 3, &r, 0, nreq, 0, "ep1 PUT r"), upload_script(2, 3, &r, 0, nreq, 0, "ep2 PUT r")] },
        SetSpec { name: "method-differs(uploads)", transfers: vec![upload_script(1, 3, &r, 0, nreq, 0, "ep1 PUT r"), upload_script(1, 6, &r, 0, nreq, 0, "ep1 PATCH r")] },
        SetSpec { name: "method-differs(download-vs-upload)", transfers: vec![download_script(1, &r, 0, nreq, "ep1 GET r"), upload_script(1, 3, &r, 1, nreq, 0, "ep1 PUT r")] },
        SetSpec { name: "path-segmentation([a,b]-vs-[a/b])", transfers: vec![download_script(1, &ab, 1, nreq, "GET [a,b]"), download_script(1, &a_slash_b, 1, nreq, "GET [a/b]")] },
        SetSpec { name: "path-prefix([a]-vs-[a,b])", transfers: vec![upload_script(1, 3, &a, 0, nreq, 0, "PUT [a]"), upload_script(1, 3, &ab, 0, nreq, 0, "PUT [a,b]")] },
        SetSpec { name: "empty-path-vs-[x]", transfers: vec![download_script(1, &none, 0, nreq, "GET []"), download_script(1, &x, 0, nreq, "GET [x]")] },
        SetSpec { name: "path-vs-shorter-path-plus-query([fw,slot1]-vs-[fw]?slot1)", transfers: vec![download_script(1, &[b"fw", b"slot1"], 0, nreq, "GET [fw,slot1]"), with_query(download_script(1, &[b"fw"], 0, nreq, "GET [fw]"), &[b"slot1"])] },
        SetSpec { name: "path+query-collision([a,b]?c-vs-[a]?b&c)", transfers: vec![with_query(upload_script(1, 3, &ab, 0, nreq, 0, "PUT [a,b]"), &[b"c"]), with_query(upload_script(1, 3, &a, 0, nreq, 0, "PUT [a]"), &[b"b", b"c"])] },
        // classic collisions of weak string hashes / digests (x31 and x33 polynomials, byte sums, xor folds, equal length + same ends)
        SetSpec { name: "hash-collision-x31([Aa]-vs-[BB])", transfers: vec![download_script(1, &[b"Aa"], 0, nreq, "GET [Aa]"), download_script(1, &[b"BB"], 0, nreq, "GET [BB]")] },
        SetSpec { name: "hash-collision-x31([fw,s10]-vs-[fw,s0O])", transfers: vec![upload_script(1, 3, &[b"fw", b"s10"], 0, nreq, 0, "PUT [fw,s10]"), upload_script(1, 3, &[b"fw", b"s0O"], 0, nreq, 0, "PUT [fw,s0O]")] },
        SetSpec { name: "hash-collision-x33([aa]-vs-[b@])", transfers: vec![upload_script(1, 3, &[b"aa"], 0, nreq, 0, "PUT [aa]"), upload_script(1, 3, &[b"b@"], 0, nreq, 0, "PUT [b@]")] },
        SetSpec { name: "hash-collision-sum([ad]-vs-[bc])", transfers: vec![download_script(1, &[b"ad"], 0, nreq, "GET [ad]"), download_script(1, &[b"bc"], 0, nreq, "GET [bc]")] },
        SetSpec { name: "hash-collision-xor([ab,cd]-vs-[cd,ab])", transfers: vec![download_script(1, &[b"ab", b"cd"], 0, nreq, "GET [ab,cd]"), download_script(1, &[b"cd", b"ab"], 0, nreq, "GET [cd,ab]")] },
        SetSpec { name: "hash-collision-xor-fold([aa]-vs-[bb])", transfers: vec![upload_script(1, 3, &[b"aa"], 0, nreq, 0, "PUT [aa]"), upload_script(1, 3, &[b"bb"], 0, nreq, 0, "PUT [bb]")] },
        SetSpec { name: "same-ends-and-length([sensor-a1x]-vs-[sensor-b1x])", transfers: vec![download_script(1, &[b"sensor-a1x"], 0, nreq, "GET a"), download_script(1, &[b"sensor-b1x"], 0, nreq, "GET b")] },
        SetSpec { name: "long-common-prefix(300B)", transfers: vec![upload_script(1, 3, &[&[b'k'; 300][..], b"1"], 0, nreq, 0, "PUT k..,1"), upload_script(1, 3, &[&[b'k'; 300][..], b"2"], 0, nreq, 0, "PUT k..,2")] },
        // same concatenation and segment count, another boundary
        SetSpec { name: "boundary-shift([ab,c]-vs-[a,bc])", transfers: vec![upload_script(1, 3, &[b"ab", b"c"], 0, nreq, 0, "PUT [ab,c]"), upload_script(1, 3, &[b"a", b"bc"], 0, nreq, 0, "PUT [a,bc]")] },
        SetSpec { name: "boundary-shift([,fw]-vs-[fw,])", transfers: vec![download_script(1, &[b"", b"fw"], 0, nreq, "GET [,fw]"), download_script(1, &[b"fw", b""], 0, nreq, "GET [fw,]")] },
        SetSpec { name: "boundary-shift([fw,,slot]-vs-[fw,slot,])", transfers: vec![upload_script(1, 3, &[b"fw", b"", b"slot"], 0, nreq, 0, "PUT [fw,,slot]"), upload_script(1, 3, &[b"fw", b"slot", b""], 0, nreq, 0, "PUT [fw,slot,]")] },
        // a flattened key with one-byte length prefixes: a 257-byte segment whose length byte wraps to 1
        SetSpec { name: "length-prefix-wrap(257B-segment-vs-[f,a*127,b*127])", transfers: vec![download_script(1, &[&{ let mut v = vec![b'f', 0x7f]; v.extend_from_slice(&[b'a'; 127]); v.push(0x7f); v.extend_from_slice(&[b'b'; 127]); v }[..]], 0, nreq, "GET [257B]"), download_script(1, &[b"f", &[b'a'; 127][..], &[b'b'; 127][..]], 0, nreq, "GET [f,a*127,b*127]")] },
        // a GET that resumes at a later block next to another method's open block-wise reply on the same path
        SetSpec { name: "method-differs(get-resuming-at-block-1-vs-post-with-blockwise-reply)", transfers: vec![download_script_from(1, &r, 0, 1, nreq.min(3), "GET r from block 1"), upload_script(1, 2, &r, 0, nreq - fetch, fetch, "POST r")] },
        SetSpec { name: "method-differs(get-resuming-at-block-2-vs-fetch-with-blockwise-reply)", transfers: vec![download_script_from(1, &r, 0, 2, nreq.min(3), "GET r from block 2"), upload_script(1, 5, &r, 0, nreq - fetch, fetch, "FETCH r")] },
        // segments that are not UTF-8 have no string form; they are still different paths
        SetSpec { name: "non-utf8-segment([ff]-vs-root)", transfers: vec![upload_script(1, 3, &[&[0xff][..]], 0, nreq, 0, "PUT [ff]"), upload_script(1, 3, &none, 0, nreq, 0, "PUT []")] },
        SetSpec { name: "non-utf8-segments([a,fe]-vs-[b,c3 28])", transfers: vec![download_script(1, &[b"a", &[0xfe][..]], 0, nreq, "GET [a,fe]"), download_script(1, &[b"b", &[0xc3, 0x28][..]], 0, nreq, "GET [b,c3 28]")] },
        // paths that differ only in WHICH invalid bytes they contain (equal after a lossy conversion to text)
        SetSpec { name: "non-utf8-twins([fw,img ff]-vs-[fw,img fe])", transfers: vec![download_script(1, &[b"fw", &[b'i', b'm', b'g', 0xff][..]], 0, nreq, "GET [fw,img ff]"), download_script(1, &[b"fw", &[b'i', b'm', b'g', 0xfe][..]], 0, nreq, "GET [fw,img fe]")] },
        SetSpec { name: "non-utf8-twins([ff]-vs-[U+FFFD])", transfers: vec![upload_script(1, 3, &[&[0xff][..]], 0, nreq, 0, "PUT [ff]"), upload_script(1, 3, &[&[0xef, 0xbf, 0xbd][..]], 0, nreq, 0, "PUT [ef bf bd]")] },
        SetSpec { name: "non-utf8-twins([c0 80,x]-vs-[80 80,x])", transfers: vec![upload_script(1, 2, &[&[0xc0, 0x80][..], b"x"], 0, nreq, 0, "POST [c0 80,x]"), upload_script(1, 2, &[&[0x80, 0x80][..], b"x"], 0, nreq, 0, "POST [80 80,x]")] },
        // escapes a flattened key might use for '/' inside a segment
        SetSpec { name: "percent-escape([fw/slot]-vs-[fw%2Fslot])", transfers: vec![upload_script(1, 3, &[b"fw/slot"], 0, nreq, 0, "PUT [fw/slot]"), upload_script(1, 3, &[b"fw%2Fslot"], 0, nreq, 0, "PUT [fw%2Fslot]")] },
        SetSpec { name: "percent-escape-lowercase([a/b]-vs-[a%2fb])", transfers: vec![download_script(1, &[b"a/b"], 0, nreq, "GET [a/b]"), download_script(1, &[b"a%2fb"], 0, nreq, "GET [a%2fb]")] },
        SetSpec { name: "backslash-escape([a/b]-vs-[a\\/b])", transfers: vec![download_script(1, &[b"a/b"], 0, nreq, "GET [a/b]"), download_script(1, &[b"a\\/b"], 0, nreq, "GET [a\\/b]")] },
        SetSpec { name: "escaped-escape([a%b]-vs-[a%25b])", transfers: vec![upload_script(1, 3, &[b"a%b"], 0, nreq, 0, "PUT [a%b]"), upload_script(1, 3, &[b"a%25b"], 0, nreq, 0, "PUT [a%25b]")] },
        SetSpec { name: "separator-in-segment([a,b]-vs-[a\\0b])", transfers: vec![upload_script(1, 3, &[b"a", b"b"], 0, nreq, 0, "PUT [a,b]"), upload_script(1, 3, &[b"a\0b"], 0, nreq, 0, "PUT [a NUL b]")] },
        SetSpec { name: "root-vs-one-empty-segment", transfers: vec![download_script(1, &none, 0, nreq, "GET []"), download_script(1, &[b""], 0, nreq, "GET [\"\"]")] },
        SetSpec { name: "leading-empty-segment([x]-vs-[,x])", transfers: vec![upload_script(1, 3, &x, 0, nreq, 0, "PUT [x]"), upload_script(1, 3, &[b"", b"x"], 0, nreq, 0, "PUT [\"\",x]")] },
        SetSpec { name: "trailing-empty-segment([x]-vs-[x,])", transfers: vec![download_script(1, &x, 1, nreq, "GET [x]"), download_script(1, &[b"x", b""], 1, nreq, "GET [x,\"\"]")] },
        SetSpec { name: "case-differs([x]-vs-[X])", transfers: vec![upload_script(1, 3, &x, 0, nreq, 0, "PUT [x]"), upload_script(1, 3, &[b"X"], 0, nreq, 0, "PUT [X]")] },
        SetSpec { name: "endpoint-differs(upload-then-blockwise-reply)", transfers: vec![upload_script(1, 2, &r, 0, nreq - fetch, fetch, "ep1 POST r"), upload_script(2, 2, &r, 0, nreq - fetch, fetch, "ep2 POST r")] },
    ];
    if three {
        v = vec![
            SetSpec { name: "three-endpoints(download)", transfers: vec![download_script(1, &ab, 1, nreq, "ep1"), download_script(2, &ab, 1, nreq, "ep2"), download_script(3, &ab, 1, nreq, "ep3")] },
            SetSpec { name: "three-methods(upload)", transfers: vec![upload_script(1, 3, &r, 0, nreq, 0, "PUT"), upload_script(1, 2, &r, 0, nreq, 0, "POST"), upload_script(1, 6, &r, 0, nreq, 0, "PATCH")] },
            SetSpec { name: "three-paths([a],[a,b],[a/b])", transfers: vec![download_script(1, &a, 0, nreq, "[a]"), download_script(1, &ab, 0, nreq, "[a,b]"), download_script(1, &a_slash_b, 0, nreq, "[a/b]")] },
            SetSpec { name: "three-endpoints(mixed)", transfers: vec![upload_script(1, 2, &r, 0, nreq - 1, 1, "ep1 POST"), upload_script(2, 2, &r, 0, nreq - 1, 1, "ep2 POST"), upload_script(3, 2, &r, 0, nreq - 1, 1, "ep3 POST")] },
        ];
    }
    v
}

/// run one set under every schedule; `fine` splits exchanges into their two halves
fn run_set(rep: &mut Report, set: &SetSpec, fine: bool, shard: u64, nshards: u64, counter: &mut u64, cap: u64) {
    let longest_request = set.transfers.iter().flat_map(|t| t.requests.iter()).map(|r| r.bytes().len()).max().unwrap_or(0);
    BENCH_BUDGET.with(|b| b.set(if longest_request + 60 > BUDGET { longest_request + 200 } else { BUDGET }));

    let mut solos = Vec::new();
    for t in &set.transfers {
        match solo(t) {
            Ok(s) => solos.push(s),
            Err((sig, detail)) => {
                rep.eval();
                rep.violation(&sig, format!("solo run of {}: {}", t.label, detail), format!("set {} transfer {}", set.name, t.label));
                return;
            }
        }
    }
    // sanity: the scripts really are block-wise transfers (something was served by the handler itself)
    let handled: usize = solos.iter().map(|s| s.1.iter().filter(|b| !**b).count()).sum();
    if handled == 0 {
        rep.note("a scripted set had no exchange answered by the handler itself");
    }
    // step lists: (exchange index, half)
    let steps: Vec<Vec<(usize, u8)>> = solos
        .iter()
        .map(|(_, needs)| {
            let mut v = Vec::new();
            for (i, nb) in needs.iter().enumerate() {
                v.push((i, 0u8));
                if fine && *nb {
                    v.push((i, 1u8));
                }
            }
            v
        })
        .collect();
    let lens: Vec<usize> = steps.iter().map(|s| s.len()).collect();
    let mut executed = 0u64;
    for_each_schedule(&lens, &mut |sched| {
        *counter += 1;
        if *counter % nshards != shard {
            return true;
        }
        if executed >= cap {
            return false;
        }
        executed += 1;
        rep.eval();
        rep.distinct_enumerated();
        let witness = || format!("set {} ({}) fine={} schedule {:?}", set.name, set.transfers.iter().map(|t| t.label.clone()).collect::<Vec<_>>().join(" | "), fine, sched);
        let mut bench = Bench::new();
        let mut pos = vec![0usize; steps.len()];
        let mut pending: Vec<Option<Pending>> = (0..steps.len()).map(|_| None).collect();
        let mut transcripts: Vec<Vec<Obs>> = vec![Vec::new(); steps.len()];
        for &ti in sched {
            let (xi, half) = steps[ti][pos[ti]];
            pos[ti] += 1;
            let t = &set.transfers[ti];
            let res = if half == 0 {
                match bench.phase_a(t, xi) {
                    Err(e) => Err(e),
                    Ok(p) => {
                        if fine && p.needs_b {
                            pending[ti] = Some(p);
                            Ok(None)
                        } else {
                            bench.phase_b(p).map(Some)
                        }
                    }
                }
            } else {
                bench.phase_b(pending[ti].take().expect("pending half")).map(Some)
            };
            match res {
                Err((sig, detail)) => {
                    rep.violation(&sig, format!("transfer {} exchange {}: {}", t.label, xi, detail), witness());
                    return true;
                }
                Ok(None) => {}
                Ok(Some(obs)) => {
                    let want = &solos[ti].0[xi];
                    if &obs != want {
                        rep.violation(
                            &format!("interference:{}", set.name),
                            format!("transfer {} exchange {} ({}): {}", t.label, xi, t.requests[xi].describe(), diff_obs(&obs, want)),
                            witness(),
                        );
                        return true;
                    }
                    transcripts[ti].push(obs);
                }
            }
        }
        rep.count("schedules_equal_to_solo");
        true
    });
    rep.add(&format!("schedules_{}{}", set.name, if fine { "_fine" } else { "" }), executed);
    rep.sample(|| format!("set {} fine={}: {} schedules; solo transcript of {}: {}", set.name, fine, executed, set.transfers[0].label, solos[0].0.iter().map(|o| format!("{}{}", o.intercept_request, if o.app_called { "+app" } else { "" })).collect::<Vec<_>>().join(",")));
}

/// Conservation of keys: N requests with N pairwise different (endpoint, method, path) keys must
/// leave N entries in the handler.  Entries are counted from outside, by the endpoint instances the
/// handler keeps alive (calibrated on the first ten keys).  A key that is anything narrower than the
/// three components themselves - a digest, a truncated or lossy encoding - loses entries once enough
/// keys have been seen (a 32-bit digest: ~10 expected collisions among 300 000 keys).
pub fn key_conservation(rep: &mut Report, n: u32, seed: u64) {
    use crate::blockclient::{live_endpoints, AppReply, ReqSpec, Server};
    rep.eval();
    let witness = format!("{} requests (first block of an upload each) with pairwise different keys on one handler, seed {}", n, seed);
    set_case_str(&witness);
    let base = live_endpoints();
    let mut server = Server::new(1200, std::time::Duration::from_secs(86_400));
    let mut app = |_r: &coap_lite::CoapRequest<crate::blockclient::CEp>| AppReply::content(vec![]);
    let mut per_entry = 0i64;
    let alphabet: &[u8] = b"abcdefghijklmnopqrstuvwxyzABCDEFGHIJKLMNOPQRSTUVWXYZ0123456789-._~";
    let mut x = seed | 1;
    for k in 0..n {
        // path: 1-3 segments of pseudo-random text, the running number in the last one (so keys differ)
        x = x.wrapping_mul(6364136223846793005).wrapping_add(1442695040888963407);
        let nseg = 1 + (x >> 60) as usize % 3;
        let mut segs: Vec<String> = Vec::new();
        let mut y = x;
        for s in 0..nseg {
            let len = 1 + (y >> 56) as usize % 7;
            let mut t = String::new();
            for _ in 0..len {
                y = y.wrapping_mul(6364136223846793005).wrapping_add(1);
                t.push(alphabet[(y >> 33) as usize % alphabet.len()] as char);
            }
            if s + 1 == nseg {
                // (':' is not in the alphabet: the running number cannot merge with digits of the random text)
                t.push_str(&format!(":{}", k));
            }
            segs.push(t);
        }
        let refs: Vec<&str> = segs.iter().map(|s| s.as_str()).collect();
        let mut q = ReqSpec::new(if k % 3 == 0 { 2 } else { 3 }, &refs);
        q.mid = k as u16;
        q.block1 = Some((0, true, 0));
        q.payload = vec![k as u8; 16];
        let ex = server.exchange(&q.bytes(), k % 5, &mut app);
        if ex.reply_code() != Some(0x5f) {
            rep.violation("key-conservation-setup", format!("request {} not continued: {}", k, ex.summary()), witness);
            return;
        }
        if k == 9 {
            per_entry = (live_endpoints() - base) / 10;
            if per_entry < 1 {
                rep.note("the handler keeps no endpoint instance per entry alive: entries cannot be counted from outside");
                return;
            }
        }
    }
    let held = live_endpoints() - base;
    if held != per_entry * n as i64 {
        rep.violation(
            "distinct-keys-share-an-entry",
            format!("{} pairwise different keys left {} entries in the handler ({} endpoint instances, {} per entry)", n, held / per_entry, held, per_entry),
            witness,
        );
        return;
    }
    rep.count("key_conservation_runs_held");
    rep.add("distinct_keys_counted", n as u64);
}

pub fn run_c12(ctx: &mut Ctx) {
    let (level, shard, nshards) = (ctx.level, ctx.shard, ctx.nshards);
    let kc_seed = ctx.seed;
    let lane_name = ctx.lane.clone();
    let rep = &mut ctx.rep;
    // (independent key sets on the first four shards; the lanes differ in their key sets too)
    if (shard < 4 && level > 0) || shard == 0 {
        let lane_salt = crate::rng::fnv(lane_name.as_bytes());
        key_conservation(rep, match level { 0 => 300, 1 => 100_000, _ => 250_000 }, mix(&[kc_seed, shard, lane_salt, 12]));
    }
    rep.exhaustive = true;
    set_case_str("C12 isolation schedules");
    let mut counter = 0u64;
    let cap = u64::MAX;
    match level {
        0 => {
            for set in sets(3, false).iter().take(4) {
                run_set(rep, set, false, shard, nshards, &mut counter, 40);
            }
            rep.exhaustive = false;
        }
        1 => {
            for set in sets(5, false).iter() {
                run_set(rep, set, false, shard, nshards, &mut counter, cap); // (5,5) = 252 each
            }
            for set in sets(3, false).iter() {
                run_set(rep, set, true, shard, nshards, &mut counter, cap); // two halves per exchange
            }
            for set in sets(3, true).iter() {
                run_set(rep, set, false, shard, nshards, &mut counter, cap); // (3,3,3) = 1680 each
            }
            for set in sets(4, true).iter().take(2) {
                run_set(rep, set, false, shard, nshards, &mut counter, cap); // (4,4,4) = 34650 each
            }
        }
        _ => {
            for set in sets(5, false).iter() {
                run_set(rep, set, false, shard, nshards, &mut counter, cap);
                run_set(rep, set, true, shard, nshards, &mut counter, cap);
            }
            for set in sets(4, true).iter() {
                run_set(rep, set, false, shard, nshards, &mut counter, cap);
            }
            for set in sets(3, true).iter() {
                run_set(rep, set, true, shard, nshards, &mut counter, cap);
            }
            for set in sets(5, true).iter() {
                run_set(rep, set, false, shard, nshards, &mut counter, cap); // (5,5,5) = 756756 each
            }
        }
    }
    rep.distinct(mix(&[counter]));
    rep.floor("schedules_equal_to_solo", 1);
}
