//! C08 (Block2 reassembly), C09 (Block1 reassembly), C10 (budget / block-size choice).
//! The drivers talk to the handler through encoded datagrams only and return findings tagged
//! with the clause they belong to, so each property's monitor reports only its own clauses.

use crate::blockclient::*;
use crate::ctx::Ctx;
use crate::panicwatch::set_case_str;
use crate::report::Report;
use crate::rng::{fnv, hex, mix, Rng};
use coap_lite::CoapOption;
use std::time::Duration;

#[derive(Clone, Copy, Debug, PartialEq)]
pub enum Scope {
    /// reassembly / protocol clauses (C08, C09)
    Transfer,
    /// size budget and block-size choice (C10)
    Budget,
    /// upload clauses observed inside a mixed session (C09)
    Upload,
}

#[derive(Debug)]
pub struct Finding {
    pub scope: Scope,
    pub sig: String,
    pub detail: String,
}

fn f(scope: Scope, sig: &str, detail: String) -> Finding {
    Finding { scope, sig: sig.to_string(), detail }
}

/// response codes an application may put on a long reply: success codes other than 2.05 and
/// client / server errors with a long diagnostic payload
pub const REPLY_CODES: [u8; 8] = [0x84, 0xa3, 0x80, 0x44, 0x41, 0xa0, 0x8f, 0x43];

#[derive(Clone, Debug, PartialEq)]
pub enum Strategy {
    /// no Block2 in the first request; follow the server's size
    Follow,
    /// Block2(0, szx) in the first request
    Early(u8),
    /// optionally early, then switch to a smaller size after `after` blocks
    Reduce { early: Option<u8>, after: usize, new_szx: u8 },
}

#[derive(Clone, Debug)]
pub struct DlCfg {
    pub ep: u32,
    pub path: Vec<String>,
    pub body: Vec<u8>,
    pub reply_opts: Vec<(u16, Vec<u8>)>,
    pub tkl: usize,
    pub strategy: Strategy,
    pub typ: u8,
    /// stop (abandon the transfer) after this many blocks were received, leaving it cached
    pub abandon_after: Option<usize>,
    /// every request of the transfer uses a token of a different length (0..=tkl)
    pub vary_tkl: bool,
    /// request method code (GET unless a session says otherwise)
    pub code: u8,
    /// the transfer starts with a Block1 upload of this body at this SZX; its final block is the
    /// request whose (possibly block-wise) reply is then fetched
    pub upload: Option<(Vec<u8>, u8)>,
    /// payload of the first request when there is no upload phase
    pub req_payload: Vec<u8>,
    /// requests on OTHER keys that the server handles between two block requests of this transfer
    /// before the transfer, the client tries to RESUME an older one: a request for a block far
    /// beyond the end of the body (the handler can only answer with an error)
    pub stale_resume_first: Option<(u32, u8)>,
    /// after the transfer is complete, the client asks once more for a middle block at the size that
    /// was used; the application's reply has meanwhile gained options (more overhead) and the
    /// request carries an 8-byte token.  Only on a server that is dropped afterwards.
    pub late_block_probe: bool,
    /// POST / PUT / FETCH whose (small) request body is described by a Block1 option (block 0, more
    /// clear) - on the first request and, as RFC 7959 2.7 shows, repeated on every follow-up request
    pub single_block1_everywhere: bool,
    pub noise_between_blocks: usize,
    /// requests on other keys handled while the first request of this transfer is still with the application
    pub overlap_first_exchange: usize,
    /// do not send the two probing requests after the transfer (sessions: the next transfer is
    /// the probe, and extra requests would overwrite what the finished transfer left behind)
    pub skip_release_probes: bool,
    /// response code the application answers with (2.05 unless a workload says otherwise): the
    /// handler fragments whatever the application produced, error replies with long diagnostics included
    pub reply_code: u8,
}

impl DlCfg {
    pub fn base() -> DlCfg {
        DlCfg { ep: 0, path: vec![], body: vec![], reply_opts: vec![], tkl: 0, strategy: Strategy::Follow, typ: 0, abandon_after: None, vary_tkl: false, code: 1, upload: None, req_payload: vec![], noise_between_blocks: 0, overlap_first_exchange: 0, skip_release_probes: false, stale_resume_first: None, late_block_probe: false, single_block1_everywhere: false, reply_code: 0x45 }
    }
}

#[derive(Debug, Default)]
pub struct DlStats {
    pub fragmented: bool,
    pub blocks: usize,
    pub reduced: bool,
    pub unfragmented: bool,
    pub single_block: bool,
    pub chosen_szx: Option<u8>,
    pub server_shrank_followup: bool,
}

fn sorted_opts(o: &[(u16, Vec<u8>)]) -> Vec<(u16, Vec<u8>)> {
    let mut v = o.to_vec();
    v.sort_by_key(|x| x.0);
    v
}

fn reply_opts_without(p: &coap_lite::Packet, drop: u16) -> Vec<(u16, Vec<u8>)> {
    let mut v = Vec::new();
    for (n, l) in p.options() {
        if *n == drop {
            continue;
        }
        for x in l.iter() {
            v.push((*n, x.clone()));
        }
    }
    v
}

pub struct Ids {
    pub mid: u16,
    pub tok: u64,
}

impl Ids {
    pub fn next(&mut self, tkl: usize) -> (u16, Vec<u8>) {
        self.mid = self.mid.wrapping_add(1);
        self.tok = self.tok.wrapping_add(0x9E37_79B9_7F4A_7C15);
        (self.mid, self.tok.to_be_bytes()[..tkl].to_vec())
    }
}

/// Fetch `cfg.body` block by block.  Returns findings (empty = everything held) and stats.
pub fn download(server: &mut Server, cfg: &DlCfg, ids: &mut Ids) -> (Vec<Finding>, DlStats) {
    let mut out: Vec<Finding> = Vec::new();
    let mut st = DlStats::default();
    let budget = server.budget;
    let overhead = reply_overhead(cfg.tkl, &cfg.reply_opts);
    let want_opts = sorted_opts(&cfg.reply_opts);
    let path: Vec<&str> = cfg.path.iter().map(|s| s.as_str()).collect();
    // how often THIS transfer's requests reach the application (requests on other keys do not count)
    let own_calls = std::rc::Rc::new(std::cell::Cell::new(0u64));
    let own_calls_in_app = own_calls.clone();
    let body = cfg.body.clone();
    let reply_opts = cfg.reply_opts.clone();
    // (a refused stale resume is recognised by its class, so those transfers keep 2.05)
    let reply_code = if cfg.stale_resume_first.is_some() { 0x45 } else { cfg.reply_code };
    let mut app = move |_r: &coap_lite::CoapRequest<CEp>| {
        own_calls_in_app.set(own_calls_in_app.get() + 1);
        AppReply { code: reply_code, options: reply_opts.clone(), payload: body.clone() }
    };

    let mut client_szx: Option<u8> = match &cfg.strategy {
        Strategy::Early(s) => Some(*s),
        Strategy::Reduce { early, .. } => *early,
        Strategy::Follow => None,
    };
    macro_rules! bail {
        ($scope:expr, $sig:expr, $($arg:tt)*) => {{
            out.push(f($scope, $sig, format!($($arg)*)));
            return (out, st);
        }};
    }
    let tkl_for = |ids: &Ids| if cfg.vary_tkl { (ids.mid as usize * 7 + 3) % (cfg.tkl + 1) } else { cfg.tkl };
    if let Some((num, szx)) = cfg.stale_resume_first {
        let mut q = ReqSpec::new(cfg.code, &path);
        let (mid, tok) = ids.next(tkl_for(ids));
        q.mid = mid;
        q.token = tok;
        // (really beyond the end: a block inside the body would simply start a transfer there, which is
        // outside C08's clients.  "Beyond" with a margin of two: when the budget forces a smaller block the
        // handler re-expresses the number by dividing the offset by the UNROUNDED size it could afford
        // and then rounds the size down to a power of two, so the block it looks up can start as early
        // as half the requested offset - an observation, not a finding: no property speaks of first
        // requests for a block other than 0)
        let num = num.max((2 * cfg.body.len() / szx_size(szx)) as u32 + 3);
        q.block2 = Some((num, false, szx));
        let before = own_calls.get();
        let ex = server.exchange(&q.bytes(), cfg.ep, &mut app);
        if let Step::Panic(p) = &ex.intercept_request {
            bail!(Scope::Transfer, &p.sig(), "{}", p.text());
        }
        if let Some(Step::Panic(p)) = &ex.intercept_response {
            bail!(Scope::Transfer, &p.sig(), "{}", p.text());
        }
        if ex.reply_code().map(|c| c >> 5) == Some(2) {
            // not refused after all: the rest of this transfer would not be one of C08's
            st.fragmented = false;
            return (out, st);
        }
        // (how the refusal is rendered is C11's business; here it only has to leave nothing behind)
        own_calls.set(before);
    }
    let mut req = ReqSpec::new(cfg.code, &path);
    req.typ = cfg.typ;
    req.payload = cfg.req_payload.clone();
    // optional upload phase: every non-final block must be continued without reaching the application
    if let Some((ubody, uszx)) = &cfg.upload {
        let s = szx_size(*uszx);
        let n = if ubody.is_empty() { 1 } else { ubody.len().div_ceil(s) };
        for i in 0..n - 1 {
            let mut r = ReqSpec::new(cfg.code, &path);
            let (mid, tok) = ids.next(tkl_for(ids));
            r.mid = mid;
            r.token = tok;
            r.block1 = Some((i as u32, true, *uszx));
            r.payload = ubody[i * s..(i + 1) * s].to_vec();
            let e = server.exchange(&r.bytes(), cfg.ep, &mut app);
            if let Step::Panic(p) = &e.intercept_request {
                bail!(Scope::Upload, &p.sig(), "{}", p.text());
            }
            if e.app_called || e.intercept_request.ok() != Some(true) || e.reply_code() != Some(0x5f) {
                bail!(Scope::Upload, "non-final-block-not-continued", "session upload block {}: {}", i, e.summary());
            }
        }
        req.block1 = Some(((n - 1) as u32, false, *uszx));
        req.payload = ubody[(n - 1) * s..].to_vec();
    }
    let (mid, tok) = ids.next(tkl_for(ids));
    req.mid = mid;
    req.token = tok;
    req.block2 = client_szx.map(|s| (0, false, s));
    if cfg.single_block1_everywhere && cfg.upload.is_none() {
        req.block1 = Some((0, false, 6));
        if req.payload.is_empty() {
            req.payload = b"single block body".to_vec();
        }
    }
    let first_block1 = req.block1;
    let first_payload = req.payload.clone();
    let mut noise_id: u32 = (ids.mid as u32) << 12;
    let noise_path = cfg.path.clone();
    let noise_ep = cfg.ep;
    let noise_code = cfg.code;
    let observed_mid = req.mid;
    let noise = |server: &mut Server, n: usize, noise_id: &mut u32| {
        for _ in 0..n {
            *noise_id += 1;
            noise_request_mid(server, *noise_id, noise_ep, &noise_path, noise_code, Some(observed_mid));
        }
    };
    let ex = if cfg.overlap_first_exchange > 0 {
        let k = cfg.overlap_first_exchange;
        // the observed request is taken in and stays with the application while: k other exchanges
        // happen from start to end, and up to three more requests are taken in that are STILL pending
        // when the observed reply goes out (they are answered afterwards) - same message id included
        let pending = server.take_in(&req.bytes(), cfg.ep);
        noise(server, k, &mut noise_id);
        let mut crossed: Vec<crate::blockclient::Pending> = Vec::new();
        for c in 0..(k % 4) as u32 {
            let mut q = match c % 3 {
                0 => ReqSpec::new(1, &["crossing", "other"]),
                1 => {
                    let conf = confusable_paths(&cfg.path);
                    let segs: Vec<&str> = conf[c as usize % conf.len()].iter().map(|x| x.as_str()).collect();
                    ReqSpec::new(cfg.code, &segs)
                }
                _ => ReqSpec::new(if cfg.code == 4 { 1 } else { 4 }, &path),
            };
            q.mid = if c % 2 == 0 { req.mid } else { req.mid.wrapping_add(1 + c as u16) };
            q.token = vec![0xC0 | c as u8; (c as usize * 3) % 9];
            q.block2 = match c {
                0 => Some((2, false, 0)),
                1 => None,
                _ => Some((0, false, 6)),
            };
            let cep = if c % 3 == 1 { cfg.ep } else { cfg.ep + 900 + c };
            crossed.push(server.take_in(&q.bytes(), cep));
        }
        let ex = server.answer(pending, &mut app);
        for (c, p) in crossed.into_iter().enumerate() {
            let mut other = |_r: &coap_lite::CoapRequest<CEp>| AppReply::content(vec![0x78; if c == 1 { 700 } else { 3 }]);
            let _ = server.answer(p, &mut other);
        }
        ex
    } else {
        server.exchange(&req.bytes(), cfg.ep, &mut app)
    };
    if let Step::Panic(p) = &ex.intercept_request {
        bail!(Scope::Transfer, &p.sig(), "{}", p.text());
    }
    if ex.intercept_request.ok() != Some(false) || !ex.app_called {
        // whatever answered instead of the application is still a handler-produced message: budget and
        // block-size clauses apply to it (C10 judges those; the missing application call is C08's)
        if let (Some(l), Some(reply)) = (ex.reply_len, &ex.reply) {
            if reply.get_first_option(CoapOption::Block2).is_some() {
                if l > budget {
                    out.push(f(Scope::Budget, "block2-reply-exceeds-budget", format!("a first request answered without the application: {} bytes, budget {}", l, budget)));
                }
            }
        }
        bail!(Scope::Transfer, "first-request-not-passed-to-application", "{}", ex.summary());
    }
    if let Some((ubody, uszx)) = &cfg.upload {
        // the reply to the final upload block carries the Block1 acknowledgement - also when that
        // reply is itself cut into blocks
        if let Some(reply) = &ex.reply {
            let s = szx_size(*uszx);
            let n = if ubody.is_empty() { 1 } else { ubody.len().div_ceil(s) };
            let raw: Vec<Vec<u8>> = reply.get_option(CoapOption::Block1).map(|l| l.iter().cloned().collect()).unwrap_or_default();
            let acked = raw.len() == 1 && parse_block(&raw[0]).map(|(nr, _, sr)| nr as usize * szx_size(sr) == (n - 1) * s && sr <= *uszx).unwrap_or(false);
            if !acked {
                bail!(Scope::Upload, "final-response-without-block1", "reply to the final upload block (block {} of size {}) carries Block1 {:?}; reply is {}", n - 1, s, raw, ex.summary());
            }
        }
        let seen = ex.app_saw_payload.clone().unwrap_or_default();
        if &seen != ubody {
            bail!(Scope::Upload, "delivered-body-differs-in-session", "application received {} bytes, client uploaded {} (first difference at {})", seen.len(), ubody.len(), seen.iter().zip(ubody.iter()).position(|(a, b)| a != b).unwrap_or(seen.len().min(ubody.len())));
        }
    } else if ex.app_saw_payload.as_deref() != Some(&first_payload[..]) {
        bail!(Scope::Transfer, "request-payload-altered", "application saw {:?} bytes, request carried {}", ex.app_saw_payload.as_ref().map(|p| p.len()), first_payload.len());
    }
    match ex.intercept_response.as_ref().unwrap() {
        Step::Panic(p) => bail!(Scope::Transfer, &p.sig(), "{}", p.text()),
        Step::Err(e) => bail!(
            Scope::Transfer,
            if cfg.body.is_empty() { "intercept-response-error-on-empty-body" } else { "intercept-response-error" },
            "intercept_response returned Err({:?}: {}) for a {}-byte body, client Block2 {:?}, budget {}",
            e.code,
            e.message,
            cfg.body.len(),
            req.block2,
            budget
        ),
        Step::Ok(_) => {}
    }
    let mut received: Vec<u8> = Vec::new();
    let mut ex = ex;
    let mut cur_req = req.clone();
    let mut first = true;
    let mut blocks_done = 0usize;
    loop {
        let reply = match &ex.reply {
            Some(r) => r,
            None => bail!(Scope::Transfer, "no-reply", "{}", ex.summary()),
        };
        if reply.header.message_id != cur_req.mid || reply.get_token() != &cur_req.token[..] {
            bail!(Scope::Transfer, "reply-mid-or-token", "reply mid {} token {} for request mid {} token {}", reply.header.message_id, hex(reply.get_token()), cur_req.mid, hex(&cur_req.token));
        }
        if u8::from(reply.header.code) != reply_code {
            bail!(Scope::Transfer, "reply-code", "code {} on block {} (the application answered {:#04x})", reply.header.code, blocks_done, reply_code);
        }
        let mut got_opts = reply_opts_without(reply, 23);
        if cfg.upload.is_some() || first_block1.is_some() {
            // the Block1 acknowledgement rides on the reply to the final upload block (and on the
            // blocks cut from it); it is not one of the application's options
            got_opts.retain(|o| o.0 != 27);
        }
        if got_opts != want_opts {
            bail!(Scope::Transfer, if first { "options-on-first-block" } else { "options-not-repeated-on-follow-up-block" }, "block {}: options {:?}, application set {:?}", blocks_done, got_opts.iter().map(|o| o.0).collect::<Vec<_>>(), want_opts.iter().map(|o| o.0).collect::<Vec<_>>());
        }
        let rlen = ex.reply_len.unwrap_or(0);
        let b2raw: Vec<Vec<u8>> = reply.get_option(CoapOption::Block2).map(|l| l.iter().cloned().collect()).unwrap_or_default();
        if b2raw.len() > 1 {
            bail!(Scope::Transfer, "several-block2-options", "{:?}", b2raw);
        }
        let b2 = b2raw.first().and_then(|r| parse_block(r));
        match b2 {
            None => {
                if !first {
                    bail!(Scope::Transfer, "follow-up-without-block2", "{}", ex.summary());
                }
                // unfragmented
                st.unfragmented = true;
                if reply.payload != cfg.body {
                    bail!(Scope::Transfer, "unfragmented-body-differs", "got {} bytes, body {} bytes", reply.payload.len(), cfg.body.len());
                }
                if rlen > budget {
                    out.push(f(Scope::Budget, "unfragmented-reply-exceeds-budget", format!("reply of {} bytes left unfragmented with budget {} (overhead {}, body {})", rlen, budget, overhead, cfg.body.len())));
                }
                received = reply.payload.clone();
                break;
            }
            Some((num, more, szx)) => {
                let size = szx_size(szx);
                if szx > 6 {
                    out.push(f(Scope::Budget, "block-size-out-of-range", format!("server chose SZX {} ({} bytes)", szx, size)));
                }
                if rlen > budget {
                    out.push(f(Scope::Budget, "block2-reply-exceeds-budget", format!("block {} reply is {} bytes, budget {} (overhead {}, block size {}, client size {:?})", blocks_done, rlen, budget, overhead, size, client_szx.map(szx_size))));
                }
                if let Some(cs) = client_szx {
                    if szx > cs {
                        out.push(f(Scope::Budget, "block-size-larger-than-client-asked", format!("client asked {} bytes, server used {}", szx_size(cs), size)));
                    }
                    if first && overhead + 32 + szx_size(cs) <= budget && szx != cs {
                        out.push(f(Scope::Budget, "client-size-not-honoured-although-it-fits", format!("client asked {} bytes, overhead {} budget {}: server used {}", szx_size(cs), overhead, budget, size)));
                    }
                    // a follow-up answered with a SMALLER size than asked is legal (the client then
                    // continues at that size; block-number/offset agreement is checked below); a
                    // larger one is C10's finding above
                    if !first && szx < cs {
                        st.server_shrank_followup = true;
                    }
                }
                if first {
                    st.chosen_szx = Some(szx);
                    if num != 0 {
                        bail!(Scope::Transfer, "first-block-number", "first reply carries block number {}", num);
                    }
                }
                if num as usize * size != received.len() {
                    bail!(Scope::Transfer, "block-number-vs-offset", "reply block {} of size {} but {} bytes received so far", num, size, received.len());
                }
                if more && reply.payload.len() != size {
                    bail!(Scope::Transfer, "non-final-block-length", "block {} has more=1 but {} bytes (size {})", num, reply.payload.len(), size);
                }
                if !more && reply.payload.len() > size {
                    bail!(Scope::Transfer, "final-block-too-long", "final block has {} bytes (size {})", reply.payload.len(), size);
                }
                if received.len() + reply.payload.len() > cfg.body.len() || reply.payload[..] != cfg.body[received.len()..received.len() + reply.payload.len()] {
                    bail!(Scope::Transfer, "block-content", "block {} (offset {}) does not match the body", num, received.len());
                }
                received.extend_from_slice(&reply.payload);
                blocks_done += 1;
                st.blocks = blocks_done;
                if more && received.len() >= cfg.body.len() {
                    bail!(Scope::Transfer, "more-flag-set-on-last-block", "all {} bytes received but more=1", received.len());
                }
                if !more {
                    if received.len() != cfg.body.len() {
                        bail!(Scope::Transfer, "more-flag-clear-before-end", "more=0 after {} of {} bytes", received.len(), cfg.body.len());
                    }
                    if blocks_done == 1 {
                        st.single_block = true;
                    }
                    break;
                }
                st.fragmented = true;
                if cfg.abandon_after == Some(blocks_done) {
                    return (out, st);
                }
                // next request
                let mut next_szx = szx;
                if let Strategy::Reduce { after, new_szx, .. } = &cfg.strategy {
                    if blocks_done == *after && *new_szx < szx {
                        next_szx = *new_szx;
                        st.reduced = true;
                    }
                }
                client_szx = Some(next_szx);
                let nsize = szx_size(next_szx);
                let mut r = ReqSpec::new(cfg.code, &path);
                r.typ = cfg.typ;
                let (mid, tok) = ids.next(tkl_for(ids));
                r.mid = mid;
                r.token = tok;
                r.block2 = Some(((received.len() / nsize) as u32, false, next_szx));
                if cfg.single_block1_everywhere && cfg.upload.is_none() {
                    r.block1 = first_block1;
                    r.payload = first_payload.clone();
                }
                if cfg.noise_between_blocks > 0 {
                    let mut nid: u32 = 0x4000_0000 | (r.mid as u32) << 12;
                    for _ in 0..cfg.noise_between_blocks {
                        nid += 1;
                        noise_request(server, nid, cfg.ep, &cfg.path, cfg.code);
                    }
                }
                let e2 = server.exchange(&r.bytes(), cfg.ep, &mut app);
                if let Step::Panic(p) = &e2.intercept_request {
                    bail!(Scope::Transfer, &p.sig(), "{}", p.text());
                }
                if e2.app_called || e2.intercept_request.ok() != Some(true) {
                    bail!(Scope::Transfer, "follow-up-block-not-served-from-cache", "request for block {:?}: {}", r.block2, e2.summary());
                }
                ex = e2;
                cur_req = r;
                first = false;
                if blocks_done > cfg.body.len() / 16 + 4 {
                    bail!(Scope::Transfer, "transfer-does-not-terminate", "{} blocks for {} bytes", blocks_done, cfg.body.len());
                }
            }
        }
    }
    if received != cfg.body {
        bail!(Scope::Transfer, "reassembled-body-differs", "got {} bytes, body {}", received.len(), cfg.body.len());
    }
    if own_calls.get() != 1 {
        bail!(Scope::Transfer, "application-consulted-more-than-once", "{} application calls for one transfer", own_calls.get());
    }
    if cfg.skip_release_probes {
        return (out, st);
    }
    // cache released: the next request reaches the application again (with and without Block2)
    for probe_b2 in [None, Some((0u32, false, st.chosen_szx.unwrap_or(2)))] {
        let mut r = ReqSpec::new(cfg.code, &path);
        let (mid, tok) = ids.next(cfg.tkl);
        r.mid = mid;
        r.token = tok;
        r.block2 = probe_b2;
        let mut small = |_r: &coap_lite::CoapRequest<CEp>| AppReply::content(b"ok".to_vec());
        let e3 = server.exchange(&r.bytes(), cfg.ep, &mut small);
        if let Step::Panic(p) = &e3.intercept_request {
            bail!(Scope::Transfer, &p.sig(), "{}", p.text());
        }
        if !e3.app_called {
            bail!(Scope::Transfer, "cache-not-released-after-final-block", "a fresh request (Block2 {:?}) after the transfer was answered by the handler: {}", probe_b2, e3.summary());
        }
        match &e3.reply {
            Some(rp) if rp.payload == b"ok" => {}
            _ => bail!(Scope::Transfer, "fresh-request-after-transfer", "{}", e3.summary()),
        }
    }
    if cfg.late_block_probe && st.fragmented {
        if let Some(szx) = st.chosen_szx {
            let size = szx_size(szx);
            if cfg.body.len() > 3 * size {
                let mut grown = cfg.reply_opts.clone();
                grown.push((4, vec![0xE7; 8]));
                grown.push((14, vec![0x3c]));
                grown.push((2000, vec![0x67; 24]));
                let new_overhead = reply_overhead(8, &grown);
                let body = cfg.body.clone();
                let g2 = grown.clone();
                let mut bigger = move |_r: &coap_lite::CoapRequest<CEp>| AppReply { code: 0x45, options: g2.clone(), payload: body.clone() };
                let mut r = ReqSpec::new(cfg.code, &path);
                let (mid, _) = ids.next(8);
                r.mid = mid;
                r.token = vec![0xAB; 8];
                r.block2 = Some((1, false, szx));
                let e4 = server.exchange(&r.bytes(), cfg.ep, &mut bigger);
                if let Step::Panic(p) = &e4.intercept_request {
                    bail!(Scope::Transfer, &p.sig(), "{}", p.text());
                }
                if let Some(Step::Panic(p)) = &e4.intercept_response {
                    bail!(Scope::Transfer, &p.sig(), "{}", p.text());
                }
                if let (Some(l), Some(reply)) = (e4.reply_len, &e4.reply) {
                    if let Some(raw) = reply.get_first_option(CoapOption::Block2) {
                        if budget >= new_overhead + 28 && l > budget {
                            out.push(f(Scope::Budget, "late-block-reply-exceeds-budget", format!("after the transfer a request for block 1 of size {} is answered with {} bytes, budget {} (reply overhead grew to {})", size, l, budget, new_overhead)));
                        }
                        if let Some((_, _, sr)) = parse_block(raw) {
                            if sr > szx {
                                out.push(f(Scope::Budget, "block-size-larger-than-client-asked", format!("late block request at size {} answered with size {}", size, szx_size(sr))));
                            }
                        }
                    }
                }
            }
        }
    }
    (out, st)
}

// ------------------------------------------------------------------------------------------

#[derive(Clone, Debug)]
pub struct UlCfg {
    pub ep: u32,
    pub path: Vec<String>,
    pub body: Vec<u8>,
    pub szx: u8,
    /// how many times each non-final block is delivered (cycled)
    pub dups: Vec<u8>,
    pub tkl: usize,
    /// an earlier upload to the same resource that stops after `blocks` non-final blocks
    pub abandoned: Option<(Vec<u8>, u8, usize)>,
    pub extra: Vec<(u16, Vec<u8>)>,
    pub code: u8,
    /// the extra options ride only on blocks from this index on (0 = every block)
    pub extra_from: usize,
    /// before the upload, the client first tried the whole body in one request (no Block1) carrying
    /// this many bytes of Uri-Query; the 4.13 it got made it switch to block-wise
    pub oversized_first_try: Option<usize>,
    /// Size1 announced on the blocks of the abandoned upload / of the new upload (RFC 7959 s. 4:
    /// an indication of the total size); the new upload announces its true length or nothing
    pub abandoned_size1: Option<u32>,
    pub announce_size1: bool,
}

#[derive(Debug, Default)]
pub struct UlStats {
    pub blocks: usize,
    pub dup_deliveries: usize,
    pub abandoned_blocks: usize,
}

pub fn upload(server: &mut Server, cfg: &UlCfg, ids: &mut Ids) -> (Vec<Finding>, UlStats) {
    let mut out: Vec<Finding> = Vec::new();
    let mut st = UlStats::default();
    let budget = server.budget;
    let path: Vec<&str> = cfg.path.iter().map(|s| s.as_str()).collect();
    let calls_before = server.app_calls;
    macro_rules! bail {
        ($scope:expr, $sig:expr, $($arg:tt)*) => {{
            out.push(f($scope, $sig, format!($($arg)*)));
            return (out, st);
        }};
    }
    let mut app = |_r: &coap_lite::CoapRequest<CEp>| AppReply { code: 0x44, options: vec![], payload: vec![] };
    let size1_now: std::cell::Cell<Option<u32>> = std::cell::Cell::new(None);
    // one block exchange; returns the exchange for inspection
    let mut send_block = |server: &mut Server, body: &[u8], szx: u8, i: usize, more: bool, ids: &mut Ids| -> (ReqSpec, Exchange) {
        let s = szx_size(szx);
        let lo = (i * s).min(body.len());
        let hi = ((i + 1) * s).min(body.len());
        let mut r = ReqSpec::new(cfg.code, &path);
        let (mid, tok) = ids.next(cfg.tkl);
        r.mid = mid;
        r.token = tok;
        if i >= cfg.extra_from {
            r.extra = cfg.extra.clone();
        }
        if let Some(v) = size1_now.get() {
            let be = v.to_be_bytes();
            let skip = be.iter().take_while(|b| **b == 0).count();
            r.extra.push((60, be[skip..].to_vec()));
        }
        r.block1 = Some((i as u32, more, szx));
        r.payload = body[lo..hi].to_vec();
        let ex = server.exchange(&r.bytes(), cfg.ep, &mut app);
        (r, ex)
    };
    let check_ack = |out: &mut Vec<Finding>, r: &ReqSpec, ex: &Exchange, i: usize, szx: u8, final_block: bool| -> Result<(), Finding> {
        let s = szx_size(szx);
        let reply = match &ex.reply {
            Some(p) => p,
            None => return Err(f(Scope::Transfer, "no-reply", ex.summary())),
        };
        if reply.header.message_id != r.mid || reply.get_token() != &r.token[..] {
            return Err(f(Scope::Transfer, "reply-mid-or-token", format!("reply mid {} token {} for request mid {} token {}", reply.header.message_id, hex(reply.get_token()), r.mid, hex(&r.token))));
        }
        let raw: Vec<Vec<u8>> = reply.get_option(CoapOption::Block1).map(|l| l.iter().cloned().collect()).unwrap_or_default();
        if raw.len() != 1 {
            return Err(f(Scope::Transfer, if final_block { "final-response-without-block1" } else { "continue-without-block1" }, format!("{} Block1 options in the reply to block {}: {}", raw.len(), i, ex.summary())));
        }
        let (nr, _mr, sr) = match parse_block(&raw[0]) {
            Some(x) => x,
            None => return Err(f(Scope::Transfer, "ack-block1-unparseable", hex(&raw[0]))),
        };
        let size_r = szx_size(sr);
        // "echoing its number and a size no larger than the client's": with a budget that admits the
        // client's size (C09's domain) the number comes back as sent; elsewhere (C10's uploads under
        // tight budgets) a re-expression of the same offset in a smaller size is tolerated
        let admitted = r.overhead() + 32 + s <= budget;
        let echoed = nr as usize == i && sr <= szx;
        let same_offset = nr as usize * size_r == i * s;
        if !(echoed || (!admitted && same_offset)) {
            return Err(f(Scope::Transfer, "ack-does-not-echo-block-number", format!("block {} of size {} acknowledged as block {} of size {} (budget {}, request overhead {})", i, s, nr, size_r, budget, r.overhead())));
        }
        if sr > szx {
            out.push(f(Scope::Budget, "ack-size-larger-than-client", format!("client size {} acknowledged with size {}", s, size_r)));
        }
        if sr > 6 {
            out.push(f(Scope::Budget, "block-size-out-of-range", format!("server chose SZX {} in a Block1 acknowledgement", sr)));
        }
        let overhead = r.overhead();
        if overhead + 32 + s <= budget && sr != szx {
            out.push(f(Scope::Budget, "client-size-not-honoured-although-it-fits", format!("upload block size {} fits (overhead {} budget {}), server answered size {}", s, overhead, budget, size_r)));
        }
        // the client's next upload block at the acknowledged size must fit the budget
        if !final_block {
            let mut nxt = r.clone();
            nxt.block1 = Some((((i + 1) * s / size_r) as u32, true, sr));
            nxt.payload = vec![0x42; size_r];
            let l = nxt.bytes().len();
            if l > budget {
                out.push(f(Scope::Budget, "next-upload-block-exceeds-budget", format!("next block at acknowledged size {} encodes to {} bytes, budget {}", size_r, l, budget)));
            }
        }
        if let Some(l) = ex.reply_len {
            if l > budget {
                out.push(f(Scope::Budget, "block1-reply-exceeds-budget", format!("reply {} bytes, budget {}", l, budget)));
            }
        }
        Ok(())
    };

    // the client's first attempt: everything in one request, refused with 4.13
    if let Some(qlen) = cfg.oversized_first_try {
        let mut q = ReqSpec::new(cfg.code, &path);
        let (mid, tok) = ids.next(8);
        q.mid = mid;
        q.token = tok;
        q.extra = cfg.extra.clone();
        if qlen > 0 {
            q.extra.push((15, vec![b'q'; qlen]));
        }
        q.payload = vec![0x33; budget + 50];
        let mut refuse_app = |_r: &coap_lite::CoapRequest<CEp>| AppReply { code: 0x44, options: vec![], payload: vec![] };
        let ex = server.exchange(&q.bytes(), cfg.ep, &mut refuse_app);
        if let Step::Panic(p) = &ex.intercept_request {
            bail!(Scope::Transfer, &p.sig(), "{}", p.text());
        }
        // (whether this is 4.13 or a 5.00 because the query alone exceeds the budget is judged elsewhere)
        st.abandoned_blocks += 0;
    }
    // abandoned earlier upload
    if let Some((abody, aszx, ablocks)) = &cfg.abandoned {
        // (never less than what the abandoned blocks themselves cover: a server may refuse blocks beyond an announced total)
        size1_now.set(cfg.abandoned_size1.map(|v| v.max((*ablocks * szx_size(*aszx)) as u32 + 1)));
        for i in 0..*ablocks {
            let (r, ex) = send_block(server, abody, *aszx, i, true, ids);
            if let Step::Panic(p) = &ex.intercept_request {
                bail!(Scope::Transfer, &p.sig(), "{}", p.text());
            }
            if ex.intercept_request.ok() != Some(true) || ex.app_called || ex.reply_code() != Some(0x5f) {
                bail!(Scope::Transfer, "non-final-block-not-continued", "abandoned-prefix block {}: {}", i, ex.summary());
            }
            if let Err(fd) = check_ack(&mut out, &r, &ex, i, *aszx, false) {
                out.push(fd);
                return (out, st);
            }
            st.abandoned_blocks += 1;
        }
    }
    size1_now.set(if cfg.announce_size1 { Some(cfg.body.len() as u32) } else { None });
    let s = szx_size(cfg.szx);
    let n = if cfg.body.is_empty() { 1 } else { cfg.body.len().div_ceil(s) };
    for i in 0..n {
        let last = i + 1 == n;
        if !last {
            let d = if cfg.dups.is_empty() { 1 } else { cfg.dups[i % cfg.dups.len()].max(1) } as usize;
            for k in 0..d {
                let (r, ex) = send_block(server, &cfg.body, cfg.szx, i, true, ids);
                if let Step::Panic(p) = &ex.intercept_request {
                    bail!(Scope::Transfer, &p.sig(), "{}", p.text());
                }
                if ex.app_called {
                    bail!(Scope::Transfer, "application-reached-by-non-final-block", "block {} (delivery {}): {}", i, k, ex.summary());
                }
                if ex.intercept_request.ok() != Some(true) || ex.reply_code() != Some(0x5f) {
                    bail!(Scope::Transfer, "non-final-block-not-continued", "block {} (delivery {}): {}", i, k, ex.summary());
                }
                if let Err(fd) = check_ack(&mut out, &r, &ex, i, cfg.szx, false) {
                    out.push(fd);
                    return (out, st);
                }
                if k > 0 {
                    st.dup_deliveries += 1;
                }
            }
        } else {
            let (r, ex) = send_block(server, &cfg.body, cfg.szx, i, false, ids);
            if let Step::Panic(p) = &ex.intercept_request {
                bail!(Scope::Transfer, &p.sig(), "{}", p.text());
            }
            if let Some(Step::Panic(p)) = &ex.intercept_response {
                bail!(Scope::Transfer, &p.sig(), "{}", p.text());
            }
            if ex.intercept_request.ok() != Some(false) || !ex.app_called {
                bail!(Scope::Transfer, "final-block-not-passed-to-application", "{}", ex.summary());
            }
            let seen = ex.app_saw_payload.clone().unwrap_or_default();
            if seen != cfg.body {
                let kind = if seen.len() > cfg.body.len() && seen[..cfg.body.len()] == cfg.body[..] {
                    "delivered-body-has-stale-tail"
                } else if seen.len() < cfg.body.len() {
                    "delivered-body-too-short"
                } else {
                    "delivered-body-differs"
                };
                let at = seen.iter().zip(cfg.body.iter()).position(|(a, b)| a != b).unwrap_or(seen.len().min(cfg.body.len()));
                bail!(Scope::Transfer, kind, "application received {} bytes, client sent {} (first difference at {}); abandoned prefix {:?}", seen.len(), cfg.body.len(), at, cfg.abandoned.as_ref().map(|a| (a.0.len(), szx_size(a.1), a.2)));
            }
            if ex.reply_code() != Some(0x44) {
                bail!(Scope::Transfer, "final-response-code", "{}", ex.summary());
            }
            if let Err(fd) = check_ack(&mut out, &r, &ex, i, cfg.szx, true) {
                out.push(fd);
                return (out, st);
            }
        }
        st.blocks += 1;
    }
    if server.app_calls - calls_before != 1 {
        bail!(Scope::Transfer, "application-not-consulted-exactly-once", "{} application calls for one upload", server.app_calls - calls_before);
    }
    (out, st)
}

// ------------------------------------------------------------------------------------------
// workloads

const LONG: Duration = Duration::from_secs(3600);

fn gen_reply_opts(r: &mut Rng) -> Vec<(u16, Vec<u8>)> {
    match r.below(8) {
        // a notification (or the reply that establishes an observation): Observe is one of the
        // application's options like any other and is repeated on every block
        6 => {
            let n = r.usize_below(4);
            vec![(6, r.bytes(n)), (12, vec![50]), (14, vec![5])]
        }
        7 => vec![(4, r.bytes(2)), (6, vec![r.next_u64() as u8]), (14, vec![1, 0])],
        0 => vec![],
        1 => vec![(12, vec![50])],
        2 => vec![(4, r.bytes(4)), (12, vec![]), (14, vec![60])],
        3 => vec![(8, b"loc".to_vec()), (8, b"path".to_vec()), (12, vec![40]), (65000, r.bytes(3))],
        4 => vec![(4, r.bytes(8)), (14, vec![1, 0]), (28, vec![4, 0]), (2049, vec![1])],
        _ => {
            let n = r.usize_below(60);
            vec![(12, vec![42]), (20, r.bytes(n))]
        }
    }
}

fn report_findings(rep: &mut Report, findings: Vec<Finding>, scope: Scope, witness: &str) -> bool {
    let mut any = false;
    for fd in findings {
        if fd.scope == scope {
            rep.violation(&fd.sig, fd.detail, witness.to_string());
            any = true;
        } else {
            rep.count("findings_outside_this_property_(reported_by_its_own_check)");
            rep.bucket(&format!("outside:{}", fd.sig));
            if std::env::var_os("CLV_SHOW_OUTSIDE").is_some() {
                eprintln!("OUTSIDE {} | {} | {}", fd.sig, fd.detail, witness);
            }
        }
    }
    any
}

fn strategy_name(s: &Strategy) -> &'static str {
    match s {
        Strategy::Follow => "follow",
        Strategy::Early(_) => "early",
        Strategy::Reduce { .. } => "reduce",
    }
}

fn dl_one(rep: &mut Report, budget: usize, cfg: &DlCfg, ids: &mut Ids, scope: Scope) {
    rep.eval();
    let witness = format!(
        "download: budget {} body {}B reply-options {:?} token {}B type {} strategy {:?} path {:?}{}{}",
        budget,
        cfg.body.len(),
        cfg.reply_opts.iter().map(|o| (o.0, o.1.len())).collect::<Vec<_>>(),
        cfg.tkl,
        cfg.typ,
        cfg.strategy,
        cfg.path,
        cfg.stale_resume_first.map(|x| format!(" after a resume attempt Block2({},_,szx {})", x.0, x.1)).unwrap_or_default(),
        if cfg.vary_tkl { " token length varies" } else { "" }
    );
    set_case_str(&witness);
    let mut server = Server::new(budget, LONG);
    let (findings, st) = download(&mut server, cfg, ids);
    let clean = findings.is_empty();
    report_findings(rep, findings, scope, &witness);
    if clean {
        rep.count("transfers_held");
    }
    if st.fragmented {
        rep.count("transfers_fragmented");
    }
    if st.single_block {
        rep.count("transfers_single_block");
    }
    if st.unfragmented {
        rep.count("transfers_unfragmented");
    }
    if st.reduced {
        rep.count("transfers_with_size_reduction");
    }
    rep.add("blocks_received", st.blocks as u64);
    rep.bucket(&format!("strategy_{}", strategy_name(&cfg.strategy)));
    if let Some(s) = st.chosen_szx {
        rep.bucket(&format!("server_block_size_{}", szx_size(s)));
    }
    if cfg.body.is_empty() {
        rep.bucket("empty_body");
    }
    let size = st.chosen_szx.map(szx_size).unwrap_or(0);
    rep.distinct(mix(&[size as u64, if size > 0 { (cfg.body.len() % size) as u64 } else { cfg.body.len() as u64 }, (cfg.body.len() / size.max(1)).min(8) as u64, fnv(strategy_name(&cfg.strategy).as_bytes()), cfg.reply_opts.len() as u64]));
    rep.sample_every(1009, || witness.clone());
}


/// Several complete transfers of different shapes, one after the other, on ONE handler and ONE
/// (endpoint, method, path): plain requests with small or block-wise replies, Block1 uploads
/// whose final reply is small or block-wise, early negotiation on the final upload block.
/// Whatever an earlier transfer left behind must not leak into a later one.
pub fn run_sessions(rep: &mut Report, r: &mut Rng, n: u64, level: u32, scope: Scope, ids: &mut Ids) {
    for _ in 0..n {
        rep.eval();
        let code = *r.pick(&[2u8, 3, 5, 1, 6, 7]);
        let tkl = r.usize_below(9);
        let opts = gen_reply_opts(r);
        let overhead = reply_overhead(tkl, &opts) + 4; // + Block1 acknowledgement
        let m = r.urange((overhead + 28 + 64).min(1280), 1280);
        let maxblock = m - overhead - 12;
        let mut server = Server::new(m, LONG);
        let ntx = r.urange(3, 6);
        let mut story: Vec<String> = Vec::new();
        let mut ok = true;
        for t in 0..ntx {
            let upload = if code != 1 && r.bool() {
                // a block size whose request fits the budget with room to spare
                let mut szx = r.below(5) as u8;
                while szx > 0 && 60 + szx_size(szx) > m {
                    szx -= 1;
                }
                let s = szx_size(szx);
                let ulen = match r.below(3) {
                    0 => s * r.urange(1, 4),
                    1 => s * r.urange(1, 4) + r.urange(1, s - 1),
                    _ => r.usize_below(s),
                };
                Some((body_bytes(r.next_u64(), ulen), szx))
            } else {
                None
            };
            let blen = match r.below(3) {
                0 => r.usize_below(12),
                1 => r.urange(maxblock, 5 * maxblock + 30),
                _ => r.urange(1, 3 * maxblock),
            };
            let blen = if level == 0 { blen.min(400) } else { blen };
            let strategy = match r.below(4) {
                0 | 1 => Strategy::Follow,
                2 => Strategy::Early(r.below(7) as u8),
                _ => Strategy::Reduce { early: None, after: r.urange(1, 2), new_szx: r.below(2) as u8 },
            };
            let upload_is_none = upload.is_none();
            let cfg = DlCfg { ep: 7, path: vec!["sess".into()], body: body_bytes(r.next_u64(), blen), reply_opts: opts.clone(), tkl, strategy, typ: 0, abandon_after: None, vary_tkl: r.chance(1, 3), code, upload, req_payload: if code != 1 && r.bool() { b"q".to_vec() } else { vec![] }, noise_between_blocks: 0, overlap_first_exchange: 0, skip_release_probes: t + 1 < ntx && r.chance(2, 3), stale_resume_first: if r.chance(1, 8) { Some((r.urange(3, 3000) as u32, r.below(7) as u8)) } else { None } , late_block_probe: false , single_block1_everywhere: code != 1 && upload_is_none && r.chance(1, 2), reply_code: if r.chance(1, 5) { *r.pick(&REPLY_CODES) } else { 0x45 } };
            story.push(format!("#{} {} upload {:?} reply {}B strategy {:?} vary_tkl {}", t, coap_lite::MessageClass::from(code), cfg.upload.as_ref().map(|u| (u.0.len(), szx_size(u.1))), blen, cfg.strategy, cfg.vary_tkl));
            let witness = format!("session on one handler and key, budget {} reply options {:?}: {}", m, opts.iter().map(|o| o.0).collect::<Vec<_>>(), story.join(" ; "));
            set_case_str(&witness);
            let (findings, st) = download(&mut server, &cfg, ids);
            // budget findings are judgements on a completed exchange; every other finding aborted
            // the transfer midway, so the session cannot go on after it
            let clean = !findings.iter().any(|x| x.scope != Scope::Budget);
            let findings: Vec<Finding> = findings.into_iter().map(|mut x| {
                x.sig = format!("in-session:{}", x.sig);
                x
            }).collect();
            report_findings(rep, findings, scope, &witness);
            if cfg.upload.is_some() {
                rep.count("session_transfers_with_upload_phase");
            }
            if st.fragmented {
                rep.count("session_transfers_with_blockwise_reply");
            }
            if !clean {
                ok = false;
                break;
            }
            rep.count("session_transfers_held");
        }
        if ok {
            rep.count("sessions_held");
        }
        rep.distinct(mix(&[0x5E55, code as u64, ntx as u64, fnv(story.join("").as_bytes()) % 4096]));
        rep.sample_every(211, || story.join(" ; "));
    }
}

/// Two downloads by the same endpoint and method on resources whose paths are easily confused,
/// fetched block by block in alternation.  Each client must reassemble exactly its own body.
pub fn interleaved_similar_paths(rep: &mut Report, r: &mut Rng, ids: &mut Ids) {
    let pairs: [(&[&str], &[&str]); 6] = [(&[], &[""]), (&["a", "b"], &["a/b"]), (&["x"], &["", "x"]), (&["x"], &["x", ""]), (&["x"], &["X"]), (&["p", "q"], &["p"])];
    for (pa, pb) in pairs.iter() {
        for szx in [0u8, 2] {
            rep.eval();
            let size = szx_size(szx);
            let witness = format!("interleaved downloads: same endpoint, GET, paths {:?} and {:?}, block size {}", pa, pb, size);
            set_case_str(&witness);
            let mut server = Server::new(40 + size + 12 + 9, LONG);
            let bodies = [body_bytes(r.next_u64(), size * 3 + 7), body_bytes(r.next_u64(), size * 4 + 1)];
            let paths = [*pa, *pb];
            let mut got: [Vec<u8>; 2] = [Vec::new(), Vec::new()];
            let mut done = [false, false];
            let mut calls = [0u32, 0u32];
            let mut failed = false;
            let mut step = 0usize;
            while !(done[0] && done[1]) && step < 40 && !failed {
                let t = step % 2;
                step += 1;
                if done[t] {
                    continue;
                }
                let mut q = ReqSpec::new(1, paths[t]);
                let (mid, tok) = ids.next(2);
                q.mid = mid;
                q.token = tok;
                q.block2 = Some(((got[t].len() / size) as u32, false, szx));
                let body = bodies[t].clone();
                let mut called = false;
                let mut app = |_q: &coap_lite::CoapRequest<CEp>| {
                    called = true;
                    AppReply::content(body.clone())
                };
                let ex = server.exchange(&q.bytes(), 9, &mut app);
                if called {
                    calls[t] += 1;
                }
                let ok = match (&ex.reply, ex.block_of(CoapOption::Block2)) {
                    (Some(rp), Some(bv)) => {
                        let lo = got[t].len();
                        let hi = (lo + size).min(bodies[t].len());
                        let good = rp.payload == bodies[t][lo..hi] && rp.header.message_id == q.mid && bv.more == (hi < bodies[t].len());
                        if good {
                            got[t].extend_from_slice(&rp.payload);
                            if !bv.more {
                                done[t] = true;
                            }
                        }
                        good
                    }
                    _ => false,
                };
                if !ok {
                    rep.violation("interleaved-similar-paths:block-content", format!("transfer on path {:?}: after {} bytes the reply is {}", paths[t], got[t].len(), ex.summary()), witness.clone());
                    failed = true;
                }
            }
            if !failed {
                if got[0] != bodies[0] || got[1] != bodies[1] || calls != [1, 1] {
                    rep.violation("interleaved-similar-paths:reassembly", format!("bodies {}/{} of {}/{} bytes, application calls {:?}", got[0].len(), got[1].len(), bodies[0].len(), bodies[1].len(), calls), witness);
                } else {
                    rep.count("interleaved_similar_path_pairs_held");
                }
            }
        }
    }
}

/// A transfer on a busy server: thousands of requests on other keys arrive between two block
/// requests, and while the first request is still with the application.
/// paths that are NOT `path` but are easily mistaken for it by a key that is anything other than
/// the segment list itself: joined / split at '/', empty segments added, case changed, a prefix,
/// an extension, and classic collisions of multiplicative string hashes ("Aa" / "BB")
pub fn confusable_paths(path: &[String]) -> Vec<Vec<String>> {
    let mut out: Vec<Vec<String>> = Vec::new();
    if path.len() >= 2 {
        out.push(vec![path.join("/")]);
        out.push(path[..path.len() - 1].to_vec());
    }
    if path.is_empty() {
        out.push(vec![String::new()]);
    }
    for (i, seg) in path.iter().enumerate() {
        if let Some(pos) = seg.find('/') {
            let mut p = path.to_vec();
            p[i] = seg[..pos].to_string();
            p.insert(i + 1, seg[pos + 1..].to_string());
            out.push(p);
        }
        if seg.contains("Aa") || seg.contains("BB") {
            let mut p = path.to_vec();
            p[i] = if seg.contains("Aa") { seg.replacen("Aa", "BB", 1) } else { seg.replacen("BB", "Aa", 1) };
            out.push(p);
        }
        let swapped: String = seg.chars().map(|c| if c.is_ascii_lowercase() { c.to_ascii_uppercase() } else { c.to_ascii_lowercase() }).collect();
        if &swapped != seg {
            let mut p = path.to_vec();
            p[i] = swapped;
            out.push(p);
        }
    }
    let mut p = path.to_vec();
    p.push(String::new());
    out.push(p);
    let mut p = vec![String::new()];
    p.extend_from_slice(path);
    out.push(p);
    let mut p = path.to_vec();
    p.push("x".into());
    out.push(p);
    out.retain(|q| q.as_slice() != path);
    out
}

/// one request of background load.  Two out of three come from other endpoints on unrelated
/// paths; every third comes from the observed transfer's OWN endpoint (or asks for its own path
/// from another endpoint / with another method) on a confusable key, and leaves state of every
/// kind there: a plain exchange, a stored Block2 preference, a cached fragmented reply, an
/// unfinished upload.
pub fn noise_request(server: &mut Server, id: u32, ep: u32, path: &[String], observed_code: u8) {
    noise_request_mid(server, id, ep, path, observed_code, None)
}

/// `same_mid`: the message id of the observed request that is in flight right now - ids are per
/// client, so other clients' requests may well carry the same one
pub fn noise_request_mid(server: &mut Server, id: u32, ep: u32, path: &[String], observed_code: u8, same_mid: Option<u16>) {
    // the application's answers on the neighbouring keys carry different codes (2.02 Deleted, 2.04,
    // 2.01, 2.03, 4.04 ...): what happened to a neighbouring resource says nothing about this transfer
    let small_code = [0x45u8, 0x44, 0x41, 0x45, 0x43, 0x84, 0x45, 0x42][((id / 3) as usize * 7 + (id / 15) as usize) % 8];
    let mut small = move |_r: &coap_lite::CoapRequest<CEp>| AppReply { code: small_code, options: vec![], payload: b"n".to_vec() };
    let the_mid = match same_mid {
        Some(m) if id % 2 == 0 => m,
        _ => id as u16,
    };
    if id % 3 != 0 {
        let mut q = ReqSpec::new(1, &["noise", &format!("{}", id % 4099)]);
        q.mid = the_mid;
        // a few of them are follow-up requests of other clients' downloads
        if id % 4 == 1 {
            q.block2 = Some((1 + id % 5, false, (id % 7) as u8));
        }
        let _ = server.exchange(&q.bytes(), 50_000 + id % 13, &mut small);
        return;
    }
    let conf = confusable_paths(path);
    let k = (id / 3) as usize;
    let (nep, npath, code): (u32, Vec<String>, u8) = match k % 5 {
        0 => (ep + 1, path.to_vec(), 1),                 // same path, another endpoint
        1 => (ep, path.to_vec(), if observed_code == 4 { 1 } else { 4 }), // same path and endpoint, another method
        _ => (ep, conf[k % conf.len()].clone(), 1),      // same endpoint, confusable path
    };
    let segs: Vec<&str> = npath.iter().map(|s| s.as_str()).collect();
    let mut q = ReqSpec::new(code, &segs);
    q.mid = the_mid;
    q.token = vec![(id & 0xff) as u8; (k % 9).min(8)];
    match (k / 5) % 4 {
        0 => {
            let _ = server.exchange(&q.bytes(), nep, &mut small);
        }
        1 => {
            // states a block size preference (sometimes for a later block); the reply is small
            q.block2 = Some(((k as u32 / 20) % 3, false, if k % 2 == 0 { 6 } else { (k % 7) as u8 }));
            let _ = server.exchange(&q.bytes(), nep, &mut small);
        }
        2 => {
            // a reply that has to be fragmented: leaves a cached body on that key
            let mut big = |_r: &coap_lite::CoapRequest<CEp>| AppReply::content(vec![0x4e; 1500]);
            let _ = server.exchange(&q.bytes(), nep, &mut big);
        }
        _ => {
            // the first block of an upload that is never finished
            // (on the observed path and endpoint itself the method has to differ from the observed one)
            let ucode = if k % 5 == 1 && observed_code == 3 { 2 } else { 3 };
            let mut u = ReqSpec::new(ucode, &segs);
            u.mid = id as u16;
            u.block1 = Some((0, true, 0));
            u.payload = vec![0x55; 16];
            let _ = server.exchange(&u.bytes(), nep, &mut small);
        }
    }
}

pub fn busy_server(rep: &mut Report, r: &mut Rng, ids: &mut Ids, scope: Scope, level: u32) {
    let loads: &[(usize, usize)] = if level == 0 { &[(3, 3)] } else { &[(0, 70), (70, 0), (1100, 0), (0, 1100), (2500, 70), (5, 5), (16, 16), (1, 1), (31, 0), (0, 31)] };
    let variants: u64 = if level == 0 { 1 } else { 3 };
    for (&(between_blocks, overlap), variant) in loads.iter().flat_map(|l| (0..variants).map(move |v| (l, v))) {
        // (the long-body variants have ~80 blocks: they run under the lighter loads only)
        if variant >= 1 && between_blocks > 100 {
            continue;
        }
        rep.eval();
        let szx = if variant == 0 { r.below(4) as u8 } else { (variant as u8 - 1) * 2 };
        let opts = gen_reply_opts(r);
        let tkl = r.usize_below(9);
        let overhead = reply_overhead(tkl, &opts);
        // with room for at least twice the client's size (a server that forgot the preference would
        // visibly pick a larger one), or with random slack
        let slack = if variant >= 1 { szx_size(szx) + 40 + r.usize_below(100) } else { r.usize_below(200) };
        let m = (overhead + 12 + 32 + szx_size(szx) + slack).min(1280);
        // (longer than the budget for two out of three: no way around fragmenting it)
        let len = szx_size(szx) * 3 + r.usize_below(40) + 1 + if variant >= 1 { m.max(400) } else { 0 };
        let bpath: Vec<String> = match r.below(5) {
            0 => vec!["busy".into()],
            1 => vec!["fw".into(), "v2".into()],
            2 => vec!["fw/v2".into()],
            3 => vec![],
            _ => vec!["Aa".into(), "x".into()],
        };
        let cfg = DlCfg { ep: 77, path: bpath, body: body_bytes(r.next_u64(), len), reply_opts: opts, tkl, strategy: Strategy::Early(szx), typ: 0, noise_between_blocks: between_blocks, overlap_first_exchange: overlap, ..DlCfg::base() };
        let witness = format!("busy server: budget {} body {}B client block size {}, {} requests on other keys between block requests, {} while the first request is with the application", m, len, szx_size(szx), between_blocks, overlap);
        set_case_str(&witness);
        let mut server = Server::new(m, LONG);
        // other clients' downloads that are already open (and stay unfinished) when the observed one starts
        // (bodies of decreasing size - 20000, 5000, 1000, 300 bytes - so that whatever total a handler
        // might be willing to hold is filled to within a few hundred bytes)
        let open_before = [0u32, 14, 100][variant as usize % 3];
        for w in 0..open_before {
            let mut q = ReqSpec::new(1, &["open", &format!("{}", w)]);
            q.mid = w as u16;
            q.token = vec![w as u8];
            q.block2 = Some((0, false, 0));
            let blen = if open_before <= 14 || w < 40 { 20000 } else if w < 60 { 5000 } else if w < 80 { 1000 } else { 300 };
            let mut big = move |_r: &coap_lite::CoapRequest<CEp>| AppReply::content(vec![0x4f; blen]);
            let _ = server.exchange(&q.bytes(), 3000 + w, &mut big);
        }
        let witness = format!("{}; {} unfinished 20000-byte downloads of other clients open beforehand", witness, open_before);
        let (findings, st) = download(&mut server, &cfg, ids);
        let findings: Vec<Finding> = findings.into_iter().map(|mut x| {
            x.sig = format!("busy-server:{}", x.sig);
            x
        }).collect();
        if !report_findings(rep, findings, scope, &witness) && st.fragmented {
            rep.count("busy_server_transfers_held");
        }
        rep.distinct(mix(&[0xB5, between_blocks as u64, overlap as u64, szx as u64]));
    }
}

pub fn run_c08(ctx: &mut Ctx) {
    let mut r = ctx.rng(8);
    let (level, budget, shard, nshards) = (ctx.level, ctx.budget, ctx.shard, ctx.nshards);
    let rep = &mut ctx.rep;
    let mut ids = Ids { mid: 0x1000, tok: 7 };
    // every body length 0..3*size+1 for small block sizes, each strategy
    let sizes: &[usize] = if level == 0 { &[16] } else { &[16, 32, 64] };
    let mut idx = 0u64;
    for &size in sizes {
        for len in 0..=(3 * size + 1) {
            for strat in 0..4 {
                idx += 1;
                if idx % nshards != shard {
                    continue;
                }
                let szx = (size.trailing_zeros() - 4) as u8;
                let reply_opts = if len % 2 == 0 { vec![(12u16, vec![50u8])] } else { vec![] };
                let tkl = len % 9;
                let overhead = reply_overhead(tkl, &reply_opts);
                let strategy = match strat {
                    0 => Strategy::Follow,
                    1 => Strategy::Early(szx),
                    2 => Strategy::Early((szx + 1).min(6)),
                    _ => Strategy::Reduce { early: None, after: 1 + len % 2, new_szx: 0 },
                };
                // budget that yields exactly `size`: overhead + 12 + size + d, d < size
                let m = overhead + 12 + size + (len * 7 + strat) % size;
                let cfg = DlCfg { ep: 1, path: vec!["res".into(), format!("{}", len)], body: body_bytes(len as u64, len), reply_opts, tkl, strategy, typ: (len % 2) as u8, abandon_after: None, vary_tkl: false, reply_code: if len % 3 == 1 { REPLY_CODES[(len / 3) % REPLY_CODES.len()] } else { 0x45 }, ..DlCfg::base() };
                dl_one(rep, m, &cfg, &mut ids, Scope::Transfer);
            }
        }
    }
    // random transfers
    for _ in 0..budget {
        let reply_opts = gen_reply_opts(&mut r);
        let tkl = r.usize_below(9);
        let overhead = reply_overhead(tkl, &reply_opts);
        let m = match r.below(4) {
            0 => overhead + 28 + r.usize_below(40),
            1 => 1280 - r.usize_below(30),
            _ => r.urange(overhead + 28, 1280),
        };
        let len = match r.below(8) {
            0 => 0,
            1 => r.usize_below(40),
            2 => *r.pick(&[15usize, 16, 17, 31, 32, 33, 1023, 1024, 1025, 2047, 2048, 2049]),
            3 | 4 => r.usize_below(3000),
            5 => r.urange(3000, 20000),
            _ => {
                let s = 16usize << r.below(7);
                (s * r.urange(1, 6)).saturating_sub(r.usize_below(3)) + r.usize_below(2)
            }
        };
        let len = if level == 0 { len.min(600) } else { len };
        let strategy = match r.below(5) {
            0 | 1 => Strategy::Follow,
            2 => Strategy::Early(r.below(7) as u8),
            3 => Strategy::Reduce { early: None, after: r.urange(1, 3), new_szx: r.below(4) as u8 },
            _ => Strategy::Reduce { early: Some(r.urange(2, 6) as u8), after: r.urange(1, 4), new_szx: r.below(3) as u8 },
        };
        let path: Vec<String> = match r.below(24) {
            // long segments of multi-byte characters (every alignment of the 255 / 256-byte marks), empty and odd segments
            0 => vec!["p".repeat(r.usize_below(4)) + &"\u{e9}".repeat(r.urange(120, 200))],
            1 => vec!["d".into(), "\u{20ac}".repeat(r.urange(80, 130)), "z".into()],
            2 => vec![String::new(), "\u{1f601}".repeat(70)],
            3 => vec!["Aa".into(), "BB".into()],
            _ => vec!["d".into(), format!("{}", r.below(5))],
        };
        let cfg = DlCfg { ep: r.below(4) as u32, path, body: body_bytes(r.next_u64(), len), reply_opts, tkl, strategy, typ: r.below(2) as u8, abandon_after: None, vary_tkl: r.chance(1, 3), stale_resume_first: if r.chance(1, 8) { Some((r.urange(3, 3000) as u32, r.below(7) as u8)) } else { None }, reply_code: if r.chance(1, 4) { *r.pick(&REPLY_CODES) } else { 0x45 }, ..DlCfg::base() };
        if cfg.stale_resume_first.is_some() {
            rep.count("transfers_after_a_stale_resume_attempt");
        }
        if cfg.vary_tkl {
            rep.count("transfers_with_varying_token_length");
        }
        // the handler measures the REQUEST against the budget as well: a budget below the request's own
        // size (long paths) is outside the domain
        let m = {
            let segs: Vec<&str> = cfg.path.iter().map(|x| x.as_str()).collect();
            let mut probe = ReqSpec::new(cfg.code, &segs);
            probe.token = vec![0; 8];
            probe.block2 = Some((4000, false, 6));
            if probe.overhead() > 40 {
                rep.count("transfers_on_long_paths");
            }
            m.max(probe.overhead() + 12 + 32).min(1280)
        };
        dl_one(rep, m, &cfg, &mut ids, Scope::Transfer);
    }
    // a transfer abandoned midway, then a fresh one for the same key that starts WITHOUT a Block2
    // option (the resource changed in between): the new transfer must see only the new body
    let nrestart = (budget / 3).max(if level == 0 { 2 } else { 30 });
    for i in 0..nrestart {
        rep.eval();
        let tkl = r.usize_below(9);
        let opts_a = gen_reply_opts(&mut r);
        let opts_b = if r.bool() { opts_a.clone() } else { gen_reply_opts(&mut r) };
        let overhead = reply_overhead(tkl, &opts_a).max(reply_overhead(tkl, &opts_b));
        let m = r.urange(overhead + 28, (overhead + 400).min(1280));
        let maxblock = m - overhead - 12;
        let len_a = r.urange(2 * maxblock + 1, 6 * maxblock + 40).min(if level == 0 { 500 } else { 20000 });
        // the new transfer must itself be block-wise (judged with ITS OWN reply overhead), otherwise
        // the abandoned one simply stays cached, which the property does not speak about
        let maxblock_b = m - reply_overhead(tkl, &opts_b) - 12;
        let len_b = match r.below(3) {
            0 => r.urange(2 * maxblock_b + 1, 5 * maxblock_b + 40),
            1 => len_a.max(maxblock_b + 1),
            _ => r.urange(maxblock_b + 1, 8 * maxblock_b),
        };
        let path = vec!["again".to_string(), format!("{}", i % 3)];
        let a = DlCfg { ep: 5, path: path.clone(), body: body_bytes(r.next_u64(), len_a), reply_opts: opts_a, tkl, strategy: if r.bool() { Strategy::Follow } else { Strategy::Early(r.below(7) as u8) }, typ: 0, abandon_after: Some(r.urange(1, 2)), vary_tkl: false, ..DlCfg::base() };
        let b = DlCfg { ep: 5, path, body: body_bytes(r.next_u64(), len_b), reply_opts: opts_b, tkl, strategy: Strategy::Follow, typ: 0, abandon_after: None, vary_tkl: false, ..DlCfg::base() };
        let witness = format!("restart: budget {} first transfer body {}B abandoned after {:?} blocks (strategy {:?}), then a new transfer without Block2, body {}B, reply options {:?} -> {:?}", m, len_a, a.abandon_after, a.strategy, len_b, a.reply_opts.iter().map(|o| o.0).collect::<Vec<_>>(), b.reply_opts.iter().map(|o| o.0).collect::<Vec<_>>());
        set_case_str(&witness);
        let mut server = Server::new(m, LONG);
        let (fa, sa) = download(&mut server, &a, &mut ids);
        if !fa.is_empty() || !sa.fragmented {
            // the first transfer itself is judged by the other workloads; only count usable setups
            rep.count("restart_setups_skipped");
            continue;
        }
        let (fb, sb) = download(&mut server, &b, &mut ids);
        let fb: Vec<Finding> = fb.into_iter().map(|mut x| {
            x.sig = format!("after-abandoned-transfer:{}", x.sig);
            x
        }).collect();
        if !report_findings(rep, fb, Scope::Transfer, &witness) {
            rep.count("restarts_after_abandoned_transfer_held");
        }
        if sb.fragmented {
            rep.count("restarts_fragmented");
        }
        rep.distinct(mix(&[0xAB, (len_a % 7) as u64, (len_b % 7) as u64, (sa.blocks) as u64, m as u64 % 5]));
    }
    run_sessions(rep, &mut r, (budget / 2).max(if level == 0 { 2 } else { 40 }), level, Scope::Transfer, &mut ids);
    if shard == 0 {
        interleaved_similar_paths(rep, &mut r, &mut ids);
        rep.floor("interleaved_similar_path_pairs_held", 1);
    }
    if shard <= 1 {
        busy_server(rep, &mut r, &mut ids, Scope::Transfer, level);
        rep.floor("busy_server_transfers_held", 1);
    }
    rep.floor("session_transfers_with_blockwise_reply", 1);
    rep.floor("session_transfers_with_upload_phase", 1);
    rep.floor("restarts_fragmented", 1);
    rep.floor("transfers_with_varying_token_length", 1);
    rep.floor("transfers_fragmented", (rep.evaluations / 4).max(1));
    rep.floor("strategy_follow", 1);
    rep.floor("strategy_early", 1);
    rep.floor("strategy_reduce", 1);
    rep.floor("empty_body", 1);
    rep.floor("blocks_received", 10);
}

// ---- C09

fn ul_one(rep: &mut Report, budget: usize, cfg: &UlCfg, ids: &mut Ids, scope: Scope) {
    rep.eval();
    let witness = format!(
        "upload: budget {} body {}B block size {} dups {:?} token {}B abandoned {:?} extra-options {}B path {:?}",
        budget,
        cfg.body.len(),
        szx_size(cfg.szx),
        cfg.dups,
        cfg.tkl,
        cfg.abandoned.as_ref().map(|a| format!("{}B body, size {}, {} blocks", a.0.len(), szx_size(a.1), a.2)),
        cfg.extra.iter().map(|o| o.1.len()).sum::<usize>(),
        cfg.path
    );
    set_case_str(&witness);
    let mut server = Server::new(budget, LONG);
    let (findings, st) = upload(&mut server, cfg, ids);
    let clean = findings.is_empty();
    report_findings(rep, findings, scope, &witness);
    if clean {
        rep.count("uploads_held");
    }
    rep.add("upload_blocks", st.blocks as u64);
    rep.add("duplicate_deliveries", st.dup_deliveries as u64);
    if st.abandoned_blocks > 0 {
        rep.count("uploads_after_abandoned_prefix");
        if let Some(a) = &cfg.abandoned {
            if a.0.len().min(a.2 * szx_size(a.1)) > cfg.body.len() {
                rep.count("abandoned_prefix_longer_than_new_body");
            }
        }
    }
    if st.blocks > 1 {
        rep.count("uploads_multi_block");
    }
    let s = szx_size(cfg.szx);
    rep.distinct(mix(&[s as u64, (cfg.body.len() % s) as u64, (cfg.body.len() / s).min(8) as u64, st.abandoned_blocks as u64, cfg.abandoned.as_ref().map(|a| a.1 as u64 + 1).unwrap_or(0), (st.dup_deliveries > 0) as u64]));
    rep.sample_every(1013, || witness.clone());
}

fn admitting_budget(r: &mut Rng, overhead: usize, size: usize) -> usize {
    // budgets that admit the client's block size (with the 32 bytes to spare C10 talks about)
    let lo = overhead + 32 + size;
    if lo >= 1280 {
        lo
    } else {
        r.urange(lo, 1280.max(lo))
    }
}

/// An upload whose blocks alternate with the client fetching the rest of an OLDER block-wise reply
/// on the same key (POST /r answered block-wise earlier, read only up to block 0): the download's
/// blocks - its last one included - go by while the upload is open; the upload must still arrive whole.
fn upload_while_old_reply_is_fetched(rep: &mut Report, r: &mut Rng) {
    for szx in [0u8, 1, 2] {
        for fetch_at in [1usize, 2, 3] {
            rep.eval();
            let s = szx_size(szx);
            let nblocks = 4 + r.usize_below(3);
            let body = body_bytes(r.next_u64(), s * (nblocks - 1) + 1 + r.usize_below(s));
            let old_reply = body_bytes(r.next_u64() ^ 7, 100 + r.usize_below(60));
            let code = *r.pick(&[2u8, 5, 7, 3, 6]);
            let witness = format!("method {:#04x} on one key: an earlier request was answered block-wise ({} bytes, block 0 read), then an upload of {} blocks of {} bytes during which, after block {}, the rest of the old reply is fetched", code, old_reply.len(), nblocks, s, fetch_at);
            set_case_str(&witness);
            let mut server = Server::new(200, LONG);
            let mut mid = 0u16;
            let mut next = |q: &mut ReqSpec| {
                mid = mid.wrapping_add(1);
                q.mid = mid;
                q.token = vec![mid as u8, 0x42];
            };
            // 1. the earlier exchange: small request, large reply, 16-byte blocks
            let old = old_reply.clone();
            let mut old_app = move |_r: &coap_lite::CoapRequest<CEp>| AppReply::content(old.clone());
            let mut q = ReqSpec::new(code, &["r"]);
            next(&mut q);
            q.block2 = Some((0, false, 0));
            let e = server.exchange(&q.bytes(), 1, &mut old_app);
            if e.block_of(CoapOption::Block2).map(|b| b.more) != Some(true) {
                rep.violation("upload-while-fetching:setup", e.summary(), witness);
                continue;
            }
            // 2. the upload, with the fetch in the middle
            let seen: std::rc::Rc<std::cell::RefCell<Vec<Vec<u8>>>> = Default::default();
            let seen2 = seen.clone();
            let mut up_app = move |rq: &coap_lite::CoapRequest<CEp>| {
                seen2.borrow_mut().push(rq.message.payload.clone());
                AppReply { code: 0x44, options: vec![], payload: vec![] }
            };
            let mut failed = false;
            // half of the uploads state a Block2 preference for the eventual reply on their non-final
            // blocks already (early negotiation): those blocks are still upload blocks, to be continued
            let b2_hint: Option<u8> = if witness.len() % 2 == 0 { Some((witness.len() / 2 % 7) as u8) } else { None };
            for i in 0..nblocks {
                let last = i + 1 == nblocks;
                let mut u = ReqSpec::new(code, &["r"]);
                next(&mut u);
                u.block1 = Some((i as u32, !last, szx));
                if let (false, Some(h)) = (last, b2_hint) {
                    u.block2 = Some((0, false, h));
                }
                u.payload = body[i * s..((i + 1) * s).min(body.len())].to_vec();
                let e = server.exchange(&u.bytes(), 1, &mut up_app);
                if !last && (e.app_called || e.reply_code() != Some(0x5f)) {
                    rep.violation("upload-while-fetching:non-final-block-not-continued", format!("block {}: {}", i, e.summary()), witness.clone());
                    failed = true;
                    break;
                }
                if i + 1 == fetch_at {
                    // fetch blocks 1.. of the old reply until its last block
                    for n in 1..40u32 {
                        let mut f = ReqSpec::new(code, &["r"]);
                        next(&mut f);
                        f.block2 = Some((n, false, 0));
                        let e = server.exchange(&f.bytes(), 1, &mut up_app);
                        match e.block_of(CoapOption::Block2) {
                            Some(b) if b.more => {}
                            _ => break,
                        }
                    }
                }
            }
            if failed {
                continue;
            }
            let delivered = seen.borrow();
            let bodies: Vec<&Vec<u8>> = delivered.iter().filter(|p| p.len() >= s).collect();
            if bodies.len() != 1 || bodies[0] != &body {
                rep.violation("upload-while-fetching:delivered-body-differs", format!("the application received {} bodies of lengths {:?}; the client uploaded {} bytes{}", delivered.len(), delivered.iter().map(|p| p.len()).collect::<Vec<_>>(), body.len(), bodies.first().map(|b| format!(", first difference at {:?}", b.iter().zip(body.iter()).position(|(a, c)| a != c))).unwrap_or_default()), witness);
            } else {
                rep.count("uploads_held_while_an_old_reply_was_fetched");
            }
        }
    }
}

pub fn run_c09(ctx: &mut Ctx) {
    let mut r = ctx.rng(9);
    let (level, budget, shard, nshards) = (ctx.level, ctx.budget, ctx.shard, ctx.nshards);
    let rep = &mut ctx.rep;
    let mut ids = Ids { mid: 0x2000, tok: 11 };
    if shard == 0 {
        upload_while_old_reply_is_fetched(rep, &mut r);
    }
    // lengths within +-2 of block multiples, every szx, with and without abandoned prefix
    let mut idx = 0u64;
    let szxs: &[u8] = if level == 0 { &[0, 1] } else { &[0, 1, 2, 3, 4, 5, 6] };
    for &szx in szxs {
        let s = szx_size(szx);
        for mult in 0..=(if level == 0 { 2usize } else { 4 }) {
            for d in -2i64..=2 {
                let len = mult as i64 * s as i64 + d;
                if len < 0 || len > 5000 {
                    continue;
                }
                let len = len as usize;
                for variant in 0..4 {
                    idx += 1;
                    if idx % nshards != shard || (level == 0 && (idx / nshards) % 3 != 0) {
                        continue;
                    }
                    let body = body_bytes(len as u64 * 31 + szx as u64, len);
                    let abandoned = match variant {
                        0 if len > s && idx % 3 == 0 => {
                            // same first block(s) as the new body, different afterwards
                            let mut a = body.clone();
                            a.extend_from_slice(&body_bytes(555, 3 * s));
                            for x in a.iter_mut().skip(s) {
                                *x ^= 0x5a;
                            }
                            Some((a, szx, 2 + len % 3))
                        }
                        0 => None,
                        1 => Some((body_bytes(999, 6 * s + 5), szx, 1 + (len % 6))), // longer
                        2 => Some((body_bytes(998, 2 * s), szx, 1)),                 // shorter
                        _ => Some((body_bytes(997, 700), if szx > 0 { szx - 1 } else { 1 }, 1 + len % 5)), // other block size
                    };
                    let cfg = UlCfg { ep: 3, path: vec!["up".into()], body, szx, dups: vec![1 + (len % 3) as u8, 1, 2], tkl: len % 9, abandoned, extra: vec![], code: [3u8, 2, 7, 5, 6][len % 5], extra_from: 0, oversized_first_try: None, abandoned_size1: None, announce_size1: false };
                    let mut probe = ReqSpec::new(3, &["up"]);
                    probe.block1 = Some((70, true, szx));
                    probe.token = vec![0; cfg.tkl];
                    // the budget admits the block size of the abandoned upload as well
                    let smax = s.max(cfg.abandoned.as_ref().map(|a| szx_size(a.1)).unwrap_or(0));
                    let m = admitting_budget(&mut r, probe.overhead(), smax);
                    ul_one(rep, m, &cfg, &mut ids, Scope::Transfer);
                }
            }
        }
    }
    for _ in 0..budget {
        let szx = r.below(7) as u8;
        let s = szx_size(szx);
        let len = match r.below(6) {
            0 => r.usize_below(3),
            1 => r.usize_below(5000),
            2 => (s * r.urange(1, 5)).saturating_sub(r.usize_below(3)),
            _ => r.usize_below(6 * s).min(5000),
        };
        let len = if level == 0 { len.min(300) } else { len };
        let new_body = body_bytes(r.next_u64(), len);
        let abandoned = if r.bool() {
            let aszx = if r.chance(2, 3) { szx } else { r.below(7) as u8 };
            let blocks = r.urange(1, 6);
            let alen = szx_size(aszx) * blocks + r.usize_below(40);
            let mut a = body_bytes(r.next_u64(), alen);
            if r.chance(1, 3) {
                // the abandoned body shares a prefix of whole blocks (or everything but one byte) with the new one
                let share = match r.below(3) {
                    0 => s,
                    1 => s * r.urange(1, 3),
                    _ => new_body.len().saturating_sub(1),
                }
                .min(a.len())
                .min(new_body.len());
                a[..share].copy_from_slice(&new_body[..share]);
            }
            Some((a, aszx, blocks))
        } else {
            None
        };
        let extra = if r.chance(1, 3) {
            let n = r.usize_below(80);
            vec![(15u16, r.bytes(n))]
        } else {
            vec![]
        };
        let path: Vec<String> = (0..r.urange(1, 3)).map(|i| format!("p{}", i)).collect();
        let cfg = UlCfg { ep: r.below(3) as u32, path, body: new_body, szx, dups: (0..3).map(|_| r.urange(1, 3) as u8).collect(), tkl: r.usize_below(9), abandoned, extra, code: *r.pick(&[2u8, 3, 5, 6, 7, 7]), extra_from: 0, oversized_first_try: if r.chance(1, 4) { Some(*r.pick(&[0usize, 20, 60, 116, 200])) } else { None }, abandoned_size1: if r.chance(1, 3) { Some(match r.below(4) { 0 => len as u32 + 1 + r.below(4000) as u32, 1 => len as u32, 2 => (len as u32).saturating_sub(1 + r.below(40) as u32), _ => r.below(6000) as u32 }) } else { None }, announce_size1: r.chance(1, 5) };
        let pathrefs: Vec<&str> = cfg.path.iter().map(|s| s.as_str()).collect();
        let mut probe = ReqSpec::new(cfg.code, &pathrefs);
        probe.block1 = Some((400, true, szx));
        probe.token = vec![0; cfg.tkl];
        probe.extra = cfg.extra.clone();
        let smax = s.max(cfg.abandoned.as_ref().map(|a| szx_size(a.1)).unwrap_or(0));
        let m = admitting_budget(&mut r, probe.overhead() + 6, smax);
        if m > 1280 {
            continue;
        }
        ul_one(rep, m, &cfg, &mut ids, Scope::Transfer);
    }
    // 4.13 for un-negotiated large requests
    let n413 = if level == 0 { 12 } else { (budget / 4).max(40) };
    for _ in 0..n413 {
        rep.eval();
        let mut req = ReqSpec::new(*r.pick(&[2u8, 3, 5, 6, 7]), &["big"]);
        let tl = r.usize_below(9);
        req.token = r.bytes(tl);
        req.mid = r.next_u64() as u16;
        let overhead = req.overhead();
        let m = r.urange(overhead + 28, 1280);
        let plen = match r.below(3) {
            0 => r.usize_below(m + 40),
            1 => (m as i64 - overhead as i64 - 40 + r.below(60) as i64).max(0) as usize,
            _ => r.urange(m, m + 2000),
        };
        req.payload = body_bytes(plen as u64, plen);
        let wire = req.bytes().len();
        let mut server = Server::new(m, LONG);
        let mut app = |_r: &coap_lite::CoapRequest<CEp>| AppReply { code: 0x44, options: vec![], payload: vec![] };
        let ex = server.exchange(&req.bytes(), 9, &mut app);
        let wit = format!("no-Block1 request of {} bytes (payload {}) with budget {}", wire, plen, m);
        if let Step::Panic(p) = &ex.intercept_request {
            rep.violation(&p.sig(), p.text(), wit);
            continue;
        }
        let is_413 = ex.intercept_request.ok() == Some(true) && ex.reply_code() == Some(0x8d);
        if wire > m {
            if !is_413 || ex.app_called {
                rep.violation("oversized-request-not-answered-4.13", ex.summary(), wit);
                continue;
            }
            match ex.block_of(CoapOption::Block1) {
                Some(b) if b.size() >= 16 => rep.count("oversized_answered_4_13_with_hint"),
                _ => {
                    rep.violation("4.13-without-block1-hint", ex.summary(), wit);
                    continue;
                }
            }
        } else if wire + 32 <= m {
            if !ex.app_called || ex.app_saw_payload.as_deref() != Some(&req.payload[..]) {
                rep.violation("small-request-not-passed-through", ex.summary(), wit);
                continue;
            }
            rep.count("small_requests_passed_through");
        } else {
            rep.count(if is_413 { "band_answered_4_13" } else { "band_passed_through" });
        }
    }
    run_sessions(rep, &mut r, (budget / 2).max(if level == 0 { 2 } else { 40 }), level, Scope::Upload, &mut ids);
    rep.floor("session_transfers_with_upload_phase", 1);
    rep.floor("uploads_held", 1);
    rep.floor("uploads_multi_block", 10);
    rep.floor("uploads_after_abandoned_prefix", 5);
    rep.floor("abandoned_prefix_longer_than_new_body", 1);
    rep.floor("duplicate_deliveries", 5);
    rep.floor("oversized_answered_4_13_with_hint", 3);
    rep.floor("small_requests_passed_through", 3);
}

// ---- C10

/// A client resumes deep inside a very long body (block numbers near the top of what the option can
/// carry at its size) on a handler whose budget only admits much smaller blocks: whatever the handler
/// answers - an error is fine - a block-wise reply must fit the budget and the client's size.
fn deep_resume(rep: &mut Report, r: &mut Rng) {
    let body = body_bytes(77, 2_200_000);
    for (num, szx) in [(1984u32, 6u8), (1985, 6), (2047, 6), (2100, 6), (8000, 4), (40_000, 1), (65_535, 0), (1000, 6)] {
        for slack in [28usize, 29, 36, 44, 60] {
            rep.eval();
            let tkl = r.usize_below(9);
            let overhead = reply_overhead(tkl, &[]);
            let m = overhead + slack;
            let mut server = Server::new(m, LONG);
            let mut q = ReqSpec::new(1, &["deep"]);
            q.mid = num as u16;
            q.token = vec![0x5d; tkl];
            q.block2 = Some((num, false, szx));
            let b = body.clone();
            let mut app = move |_r: &coap_lite::CoapRequest<CEp>| AppReply::content(b.clone());
            let ex = server.exchange(&q.bytes(), 1, &mut app);
            let witness = format!("budget {} (reply overhead {} + {}), 2.2 MB body, first request Block2({}, szx {})", m, overhead, slack, num, szx);
            if let Step::Panic(p) = &ex.intercept_request {
                rep.violation(&p.sig(), p.text(), witness);
                continue;
            }
            if let Some(Step::Panic(p)) = &ex.intercept_response {
                rep.violation(&p.sig(), p.text(), witness);
                continue;
            }
            if let (Some(l), Some(reply)) = (ex.reply_len, &ex.reply) {
                if let Some(raw) = reply.get_first_option(CoapOption::Block2) {
                    if u8::from(reply.header.code) == 0x45 {
                        if l > m {
                            rep.violation("deep-resume:block2-reply-exceeds-budget", format!("reply of {} bytes, budget {}: {}", l, m, ex.summary()), witness);
                            continue;
                        }
                        if let Some((_, _, sr)) = parse_block(raw) {
                            if sr > szx {
                                rep.violation("deep-resume:block-size-larger-than-client-asked", format!("client asked for szx {}, reply uses szx {}", szx, sr), witness);
                                continue;
                            }
                        }
                    }
                }
            }
            rep.count("deep_resume_requests_checked");
        }
    }
}

/// The client's size also binds replies the application renders later for the same request (a
/// notification, a separate response): after an exchange that ended in a single block, or after
/// the last block of a transfer was fetched, a fresh long reply for that request goes through
/// intercept_response alone.  Budgets leave more than 32 bytes to spare, so exactly the client's
/// size has to be used.
fn rerendered_replies(rep: &mut Report, r: &mut Rng) {
    for c in 0..=6u8 {
        for variant in 0..4u32 {
            rep.eval();
            let size = szx_size(c);
            let m = (size + 60 + r.usize_below(200)).min(1280);
            let mut server = Server::new(m, Duration::from_secs(3600));
            let mut q = ReqSpec::new(1, &["nt"]);
            q.mid = 0x7000 + variant as u16;
            q.block2 = Some((0, false, c));
            let first_len = match variant % 2 {
                0 => r.usize_below(size + 1), // one block, nothing cached
                _ => 2 * size + 1 + r.usize_below(size - 1), // three blocks, fetched to the end
            };
            let witness = format!("GET [nt] Block2 0/0/{} with budget {}: first reply {} bytes{}, then a fresh reply of {} bytes for the same request through intercept_response alone", size, m, first_len, if variant % 2 == 1 { " (all blocks fetched)" } else { "" }, (m + 100).max(3 * size + 10));
            set_case_str(&witness);
            let fb = body_bytes(r.next_u64(), first_len);
            let mut app1 = move |_r: &coap_lite::CoapRequest<CEp>| AppReply::content(fb.clone());
            let ex = server.exchange(&q.bytes(), 3, &mut app1);
            if let Step::Panic(p) = &ex.intercept_request {
                rep.violation(&p.sig(), p.text(), witness);
                continue;
            }
            if variant % 2 == 1 {
                for n in 1..3u32 {
                    let mut f = ReqSpec::new(1, &["nt"]);
                    f.mid = 0x7100 + n as u16;
                    f.block2 = Some((n, false, c));
                    let _ = server.exchange(&f.bytes(), 3, &mut app1);
                }
            }
            if variant >= 2 {
                // other clients' traffic in between
                for i in 0..5u32 {
                    noise_request(&mut server, 3 * i + 3, 3, &["nt".to_string()], 1);
                }
            }
            // (long enough to contain the block the client asked for last - block 2 after a fetched transfer)
            let nb = body_bytes(r.next_u64(), (m + 100).max(3 * size + 10));
            let mut app2 = move |_r: &coap_lite::CoapRequest<CEp>| AppReply::content(nb.clone());
            let ex2 = server.rerender(&q.bytes(), 3, &mut app2);
            if let Some(Step::Panic(p)) = &ex2.intercept_response {
                rep.violation(&p.sig(), p.text(), witness);
                continue;
            }
            match (ex2.block_of(CoapOption::Block2), ex2.reply_len) {
                (Some(b), Some(l)) if b.size() == size && l <= m => {
                    rep.count("rerendered_replies_at_the_clients_size");
                    rep.distinct(mix(&[0x4E7, c as u64, variant as u64]));
                }
                (b, l) => rep.violation("re-rendered-reply:client-size-not-honoured", format!("block option {:?}, reply length {:?}: {}", b.map(|b| (b.num, b.more, b.size())), l, ex2.summary()), witness),
            }
        }
    }
}

pub fn run_c10(ctx: &mut Ctx) {
    let mut r = ctx.rng(10);
    let (level, budget, shard, nshards) = (ctx.level, ctx.budget, ctx.shard, ctx.nshards);
    let rep = &mut ctx.rep;
    let mut ids = Ids { mid: 0x3000, tok: 13 };
    if shard == 2 && level > 0 {
        deep_resume(rep, &mut r);
    }
    if level > 0 && shard == 1 % nshards {
        rerendered_replies(rep, &mut r);
    }
    // directed: budgets with M - overhead - 12 in a +-3 band around every 2^k, and overhead+28..+80
    let mut idx = 0u64;
    let mut directed: Vec<(usize, i64)> = Vec::new(); // (k or 0, offset)
    for k in 4..=10usize {
        for d in -3i64..=3 {
            directed.push((k, d));
        }
    }
    for tkl in [0usize, 4, 8] {
        for (optsel, reply_opts) in [vec![], vec![(12u16, vec![50u8])], vec![(4u16, vec![1u8; 8]), (14, vec![60]), (65000, vec![1, 2, 3])]].into_iter().enumerate() {
            let overhead = reply_overhead(tkl, &reply_opts);
            let mut budgets: Vec<usize> = directed.iter().map(|(k, d)| (overhead as i64 + 12 + (1i64 << k) + d) as usize).collect();
            budgets.extend(overhead + 28..=overhead + 80);
            for m in budgets {
                if m < overhead + 28 || m > 1280 {
                    continue;
                }
                for client in [None, Some(0u8), Some(2), Some(4), Some(6), Some(7)] {
                    idx += 1;
                    if idx % nshards != shard {
                        continue;
                    }
                    if level == 0 && idx % 5 != 0 {
                        continue;
                    }
                    let strategy = match client {
                        None => Strategy::Follow,
                        Some(s) => Strategy::Early(s),
                    };
                    let len = [0usize, 10, 100, 700, 2100][(idx as usize + optsel) % 5];
                    let cfg = DlCfg { ep: 1, path: vec!["c10".into()], body: body_bytes(idx, len), reply_opts: reply_opts.clone(), tkl, strategy, typ: 0, abandon_after: None, vary_tkl: false, reply_code: if idx % 3 == 2 { REPLY_CODES[(idx / 3) as usize % REPLY_CODES.len()] } else { 0x45 }, ..DlCfg::base() };
                    dl_one(rep, m, &cfg, &mut ids, Scope::Budget);
                    rep.bucket(&format!("budget_minus_overhead_minus_12_near_2^{}", (m - overhead - 12).max(1).ilog2()));
                }
            }
        }
    }
    // bodies that land exactly on the edge between "fits unfragmented" and "must be fragmented":
    // overhead + body in M-14 ..= M+2, no client preference (an unfragmented reply must fit too)
    for tkl in [0usize, 2, 8] {
        for reply_opts in [vec![], vec![(12u16, vec![50u8])], vec![(4u16, vec![1u8; 8]), (14, vec![60]), (65000, vec![1, 2, 3])]] {
            let overhead = reply_overhead(tkl, &reply_opts);
            let mut budgets: Vec<usize> = vec![overhead + 28, overhead + 29, overhead + 44, 64, 100, 127, 128, 129, 255, 256, 300, 511, 512, 1000, 1023, 1024, 1151, 1152, 1153, 1279, 1280];
            budgets.retain(|m| *m >= overhead + 28 && *m <= 1280);
            for m in budgets {
                for d in -14i64..=2 {
                    idx += 1;
                    if idx % nshards != shard || (level == 0 && idx % 7 != 0) {
                        continue;
                    }
                    let len = m as i64 - overhead as i64 + d;
                    if len < 0 {
                        continue;
                    }
                    let cfg = DlCfg { ep: 1, path: vec!["edge".into()], body: body_bytes(idx, len as usize), reply_opts: reply_opts.clone(), tkl, strategy: Strategy::Follow, typ: (idx % 2) as u8, abandon_after: None, vary_tkl: false, reply_code: if idx % 4 == 3 { REPLY_CODES[(idx / 4) as usize % REPLY_CODES.len()] } else { 0x45 }, ..DlCfg::base() };
                    dl_one(rep, m, &cfg, &mut ids, Scope::Budget);
                    rep.count("edge_of_fragmentation_cases");
                }
            }
        }
    }
    // random configurations: downloads
    for _ in 0..budget {
        let reply_opts = gen_reply_opts(&mut r);
        let tkl = r.usize_below(9);
        let overhead = reply_overhead(tkl, &reply_opts);
        let m = if r.bool() {
            let k = r.urange(4, 10);
            ((overhead + 12 + (1 << k)) as i64 + r.range(0, 6) as i64 - 3).clamp(overhead as i64 + 28, 1280) as usize
        } else {
            r.urange(overhead + 28, 1280)
        };
        let strategy = match r.below(4) {
            0 => Strategy::Follow,
            1 | 2 => Strategy::Early(r.below(8) as u8),
            _ => Strategy::Reduce { early: Some(r.urange(1, 7) as u8), after: r.urange(1, 3), new_szx: r.below(3) as u8 },
        };
        let len = if level == 0 { r.usize_below(400) } else { r.usize_below(4000) };
        let plen = r.usize_below(200);
        // the request (long path, Block2 option, token) has to fit the budget as well
        let mut probe = ReqSpec::new(1, &[]);
        probe.path = vec![vec![b'x'; plen]];
        probe.token = vec![0; tkl];
        probe.block2 = Some((300, false, 6));
        let m = m.max(probe.overhead() + 28);
        if m > 1280 {
            continue;
        }
        let cfg = DlCfg { ep: 2, path: vec![String::from_utf8(vec![b'x'; plen]).unwrap()], body: body_bytes(r.next_u64(), len), reply_opts, tkl, strategy, typ: r.below(2) as u8, abandon_after: None, vary_tkl: false, stale_resume_first: if r.chance(1, 5) { Some((r.urange(3, 3000) as u32, r.below(7) as u8)) } else { None }, late_block_probe: r.chance(1, 2), ..DlCfg::base() };
        if cfg.stale_resume_first.is_some() {
            rep.count("transfers_after_a_stale_resume_attempt");
        }
        dl_one(rep, m, &cfg, &mut ids, Scope::Budget);
    }
    // uploads: the request's overhead is what matters
    for _ in 0..budget {
        let szx = r.below(7) as u8;
        let s = szx_size(szx);
        let plen = r.usize_below(200);
        let path = vec![String::from_utf8(vec![b'p'; plen]).unwrap()];
        let extra = if r.bool() {
            let n = r.usize_below(100);
            vec![(15u16, r.bytes(n))]
        } else {
            vec![]
        };
        let tkl = r.usize_below(9);
        let pathrefs: Vec<&str> = path.iter().map(|s| s.as_str()).collect();
        let mut probe = ReqSpec::new(3, &pathrefs);
        probe.block1 = Some((3, true, szx));
        probe.token = vec![0; tkl];
        probe.extra = extra.clone();
        let overhead = probe.overhead();
        // budgets on both sides of "client size fits": the server may have to shrink the block
        let m = match r.below(3) {
            0 => ((overhead + 12 + s) as i64 + r.range(0, 40) as i64 - 20).clamp(overhead as i64 + 28, 1280) as usize,
            1 => r.urange(overhead + 28, 1280.max(overhead + 28)),
            _ => (overhead + 32 + s + r.usize_below(8)).max(overhead + 28),
        };
        if m > 1280 {
            continue;
        }
        let len = r.usize_below(5 * s).min(if level == 0 { 400 } else { 5000 });
        // the client follows the acknowledged size only when the server shrinks it; keep the
        // property's configuration: clients never raise the size, so a shrinking server ends this
        // transfer early (the acknowledgement itself is what C10 judges)
        let extra_from = if r.bool() { 0 } else { r.urange(1, 3) };
        let cfg = UlCfg { ep: 4, path, body: body_bytes(r.next_u64(), len), szx, dups: vec![1], tkl, abandoned: None, extra, code: *r.pick(&[3u8, 2, 7, 5, 6]), extra_from, oversized_first_try: None, abandoned_size1: None, announce_size1: false };
        if extra_from > 0 && !cfg.extra.is_empty() {
            rep.count("uploads_whose_later_blocks_carry_more_options");
        }
        rep.eval();
        let witness = format!("upload: budget {} overhead {} body {}B client block size {}", m, overhead, len, s);
        set_case_str(&witness);
        let mut server = Server::new(m, LONG);
        let (findings, st) = upload(&mut server, &cfg, &mut ids);
        rep.add("upload_blocks", st.blocks as u64);
        let fits = overhead + 32 + s <= m;
        rep.bucket(if fits { "upload_client_size_fits" } else { "upload_client_size_does_not_fit" });
        if !report_findings(rep, findings, Scope::Budget, &witness) {
            rep.count("upload_budget_clauses_held");
        }
        rep.distinct(mix(&[0xB1, szx as u64, fits as u64, (m - overhead).min(1100) as u64 / 8]));
    }
    run_sessions(rep, &mut r, (budget / 2).max(if level == 0 { 2 } else { 40 }), level, Scope::Budget, &mut ids);
    if shard <= 1 {
        busy_server(rep, &mut r, &mut ids, Scope::Budget, level);
        rep.floor("busy_server_transfers_held", 1);
    }
    rep.floor("session_transfers_with_upload_phase", 1);
    rep.floor("edge_of_fragmentation_cases", 10);
    rep.floor("transfers_fragmented", 10);
    rep.floor("transfers_unfragmented", 5);
    rep.floor("uploads_whose_later_blocks_carry_more_options", 1);
    rep.floor("upload_client_size_fits", 5);
    rep.floor("upload_client_size_does_not_fit", 5);
    rep.floor("strategy_early", 10);
}
