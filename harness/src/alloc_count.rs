//! Counting global allocator: totals only (no address table, so nothing is hidden from
//! ASan / memcheck / Miri).  Observes buffer growth (C11) and reclamation (C20).

use std::alloc::{GlobalAlloc, Layout, System};
use std::sync::atomic::{AtomicIsize, AtomicUsize, Ordering::Relaxed};

pub struct Counting;

static LIVE: AtomicIsize = AtomicIsize::new(0);
static PEAK: AtomicIsize = AtomicIsize::new(0);
static ALLOCS: AtomicUsize = AtomicUsize::new(0);
/// live allocations of at least BIG bytes (upload buffers / cached bodies in the C20 scenarios)
pub const BIG: usize = 3500;
static BIG_COUNT: AtomicIsize = AtomicIsize::new(0);
static BIG_BYTES: AtomicIsize = AtomicIsize::new(0);

#[inline]
fn big(size: usize, sign: isize) {
    if size >= BIG {
        BIG_COUNT.fetch_add(sign, Relaxed);
        BIG_BYTES.fetch_add(sign * size as isize, Relaxed);
    }
}

unsafe impl GlobalAlloc for Counting {
    unsafe fn alloc(&self, l: Layout) -> *mut u8 {
        let p = System.alloc(l);
        if !p.is_null() {
            let v = LIVE.fetch_add(l.size() as isize, Relaxed) + l.size() as isize;
            PEAK.fetch_max(v, Relaxed);
            ALLOCS.fetch_add(1, Relaxed);
            big(l.size(), 1);
        }
        p
    }
    unsafe fn dealloc(&self, p: *mut u8, l: Layout) {
        System.dealloc(p, l);
        LIVE.fetch_sub(l.size() as isize, Relaxed);
        big(l.size(), -1);
    }
    unsafe fn realloc(&self, p: *mut u8, l: Layout, new: usize) -> *mut u8 {
        let q = System.realloc(p, l, new);
        if !q.is_null() {
            let d = new as isize - l.size() as isize;
            let v = LIVE.fetch_add(d, Relaxed) + d;
            PEAK.fetch_max(v, Relaxed);
            big(l.size(), -1);
            big(new, 1);
        }
        q
    }
}

pub fn live() -> isize {
    LIVE.load(Relaxed)
}
pub fn peak() -> isize {
    PEAK.load(Relaxed)
}
pub fn reset_peak() {
    PEAK.store(LIVE.load(Relaxed), Relaxed);
}
pub fn big_live() -> (isize, isize) {
    (BIG_COUNT.load(Relaxed), BIG_BYTES.load(Relaxed))
}
pub fn allocs() -> usize {
    ALLOCS.load(Relaxed)
}
