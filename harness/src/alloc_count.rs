//! Counting global allocator: totals only (no address table, so nothing is hidden from
//! ASan / memcheck / Miri).  Observes buffer growth (C11) and reclamation (C20).

use std::alloc::{GlobalAlloc, Layout, System};
use std::sync::atomic::{AtomicIsize, AtomicUsize, Ordering::Relaxed};

pub struct Counting;

static LIVE: AtomicIsize = AtomicIsize::new(0);
static PEAK: AtomicIsize = AtomicIsize::new(0);
static ALLOCS: AtomicUsize = AtomicUsize::new(0);

unsafe impl GlobalAlloc for Counting {
    unsafe fn alloc(&self, l: Layout) -> *mut u8 {
        let p = System.alloc(l);
        if !p.is_null() {
            let v = LIVE.fetch_add(l.size() as isize, Relaxed) + l.size() as isize;
            PEAK.fetch_max(v, Relaxed);
            ALLOCS.fetch_add(1, Relaxed);
        }
        p
    }
    unsafe fn dealloc(&self, p: *mut u8, l: Layout) {
        System.dealloc(p, l);
        LIVE.fetch_sub(l.size() as isize, Relaxed);
    }
    unsafe fn realloc(&self, p: *mut u8, l: Layout, new: usize) -> *mut u8 {
        let q = System.realloc(p, l, new);
        if !q.is_null() {
            let d = new as isize - l.size() as isize;
            let v = LIVE.fetch_add(d, Relaxed) + d;
            PEAK.fetch_max(v, Relaxed);
        }
        q
    }
}

pub fn live() -> isize {
    LIVE.load(Relaxed)
}
pub fn peak() -> isize {
    PEAK.load(Relaxed)
}
pub fn reset_peak() {
    PEAK.store(LIVE.load(Relaxed), Relaxed);
}
pub fn allocs() -> usize {
    ALLOCS.load(Relaxed)
}
