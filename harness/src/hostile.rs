//! C11 — the block handler survives hostile traffic: no panic, bounded buffers, clean errors.

use crate::blockclient::*;
use crate::ctx::Ctx;
use crate::panicwatch::set_case_str;
use crate::report::Report;
use crate::rng::{hex, mix, Rng};
use coap_lite::{CoapRequest, Packet};
use std::collections::HashMap;
use std::time::Duration;

const LONG: Duration = Duration::from_secs(3600);
const RESERVE: usize = 16 * 1024;

fn gen_block(r: &mut Rng) -> Option<Vec<u8>> {
    match r.below(10) {
        0..=3 => None,
        4..=7 => {
            let num = *r.pick(&[0u32, 0, 1, 1, 2, 3, 100, 4095, 4096, 65535, 1 << 19]);
            Some(block_bytes(num, r.bool(), r.below(8) as u8))
        }
        8 => {
            // malformed: 3..5 raw bytes
            let n = r.urange(3, 5);
            Some(r.bytes(n))
        }
        _ => Some(block_bytes(r.below(40) as u32, r.bool(), r.below(7) as u8)),
    }
}

struct HostileReq {
    spec: ReqSpec,
    raw_b1: Option<Vec<u8>>,
    raw_b2: Option<Vec<u8>>,
}

fn gen_request(r: &mut Rng, budget: usize, seq_no: usize) -> HostileReq {
    let paths: [&[&str]; 3] = [&["h"], &["h", "x"], &[]];
    let code = *r.pick(&[1u8, 2, 3, 3, 3, 4, 5, 0, 0x45, 0xff]);
    let mut spec = ReqSpec::new(code, paths[r.usize_below(3)]);
    spec.typ = if r.chance(5, 6) { r.below(2) as u8 } else { r.urange(2, 3) as u8 };
    spec.mid = seq_no as u16;
    let tl = r.usize_below(9);
    spec.token = r.bytes(tl);
    let raw_b1 = gen_block(r);
    let raw_b2 = if r.chance(1, 2) { gen_block(r) } else { None };
    // block options go in as raw extra options so that malformed values are possible
    if let Some(b) = &raw_b1 {
        spec.extra.push((27, b.clone()));
    }
    if let Some(b) = &raw_b2 {
        spec.extra.push((23, b.clone()));
    }
    // option bloat: overhead below / at / above the budget and above 1280
    let base = spec.overhead();
    let bloat: Option<usize> = match r.below(8) {
        0 | 1 | 2 => None,
        3 => Some(r.usize_below(40)),
        4 => Some((budget as i64 - base as i64 - 20 + r.below(40) as i64).clamp(0, 1500) as usize),
        5 => Some(r.urange(1200, 1320)),
        6 => Some(1400),
        _ => Some(r.usize_below(1400)),
    };
    if let Some(n) = bloat {
        if r.bool() {
            spec.extra.push((2000, vec![0x62; n]));
        } else {
            // the same volume as text in options the handler itself reads (path, query) or may read:
            // ASCII, multi-byte characters at every alignment, invalid UTF-8
            let unit: &[u8] = match r.below(6) {
                0 => b"a",
                1 => "\u{e9}".as_bytes(),
                2 => "\u{20ac}".as_bytes(),
                3 => "\u{1f601}".as_bytes(),
                4 => b"\xff",
                _ => b"/",
            };
            let mut text: Vec<u8> = vec![b'p'; r.usize_below(4)];
            while text.len() + unit.len() <= n {
                text.extend_from_slice(unit);
            }
            let number = *r.pick(&[11u16, 11, 11, 15, 3, 8, 35]);
            if r.chance(1, 3) && text.len() > 300 {
                // split into two long values
                let cut = 256 + r.usize_below(text.len() - 256);
                let cut = (0..=cut).rev().find(|c| std::str::from_utf8(&text[..*c]).is_ok() || unit == b"\xff").unwrap_or(0);
                spec.extra.push((number, text[..cut].to_vec()));
                spec.extra.push((number, text[cut..].to_vec()));
            } else {
                spec.extra.push((number, text));
            }
        }
    }
    // well-formed size announcements (RFC 7959 section 4) and other options a server might act on
    if r.chance(1, 5) {
        let v = *r.pick(&[0u64, 100, 16384, 17000, 65536, 300_000, 0xffff_ffff]);
        spec.extra.push((60, crate::optval::min_be(v)));
    }
    if r.chance(1, 10) {
        spec.extra.push((28, crate::optval::min_be(*r.pick(&[0u64, 1000, 1 << 20]))));
    }
    if r.chance(1, 10) {
        spec.extra.push((6, vec![]));
    }
    // options a handler may know about and take apart (Request-Tag, Echo, OSCORE, Hop-Limit, Q-Block ...),
    // with lengths inside and outside what their RFCs allow
    if r.chance(1, 5) {
        let number = *r.pick(&[292u16, 292, 252, 9, 16, 19, 31, 258, 21, 17]);
        let len = *r.pick(&[0usize, 1, 8, 9, 16, 40, 255, 300]);
        spec.extra.push((number, r.bytes(len)));
        if r.bool() {
            spec.extra.push((number, r.bytes(len / 2)));
        }
    }
    spec.extra.sort_by_key(|o| o.0);
    let plen = match r.below(6) {
        0 => 0,
        1 => r.usize_below(17),
        2 => *r.pick(&[16usize, 32, 64, 128, 256, 512, 1024]),
        3 => r.usize_below(1200),
        _ => r.usize_below(100),
    };
    spec.payload = r.bytes(plen);
    HostileReq { spec, raw_b1, raw_b2 }
}

fn gen_app_reply(r: &mut Rng) -> AppReply {
    let len = match r.below(6) {
        0 => 0,
        1 => r.usize_below(30),
        2 => r.usize_below(1300),
        3 => r.usize_below(10000),
        _ => r.usize_below(300),
    };
    let mut options = vec![];
    match r.below(8) {
        0 => options.push((4u16, r.bytes(8))),
        1 => {
            let n = r.urange(1000, 1400);
            options.push((2000u16, vec![0x63; n]))
        }
        2 => options.push((23u16, block_bytes(r.below(5) as u32, r.bool(), r.below(7) as u8))),
        3 => {
            options.push((12u16, vec![50]));
            options.push((14u16, vec![60]));
        }
        _ => {}
    }
    AppReply { code: *r.pick(&[0x45u8, 0x44, 0x41, 0x84]), options, payload: r.bytes(len) }
}

fn pick_budget(r: &mut Rng, level: u32) -> usize {
    match r.below(8) {
        0 => r.usize_below(65),
        1 => 1152,
        2 => r.usize_below(5001),
        3 => 20 + r.usize_below(60),
        4 => *r.pick(&[0usize, 1, 12, 16, 27, 28, 32, 64, 1280]),
        _ => {
            if level == 0 {
                r.urange(20, 200)
            } else {
                r.urange(20, 1400)
            }
        }
    }
}

#[cfg(has_block_hook)]
fn peek_upload_len(server: &Server, req: &CoapRequest<CEp>) -> Option<usize> {
    // (the hook derives the state key like the entry points do: if that panics, the entry point
    // called next panics inside its own guard and is reported there)
    crate::panicwatch::guard(|| server.handler.verif_peek(req).and_then(|x| x.0)).ok().flatten()
}

#[cfg(not(has_block_hook))]
fn peek_upload_len(_server: &Server, _req: &CoapRequest<CEp>) -> Option<usize> {
    None
}

fn key_of(spec: &ReqSpec, ep: u32) -> (u32, u8, Vec<Vec<u8>>) {
    // transfers are keyed by (endpoint, method, path); every code that is not a request method is
    // the same "unknown method" as far as a server is concerned
    let method = if (1..=7).contains(&spec.code) { spec.code } else { 0xff };
    // every Uri-Path value of the request counts, the ones that ride among the "extra" options too
    // (in option order they follow the ones of `path`).  A path with a segment that is not UTF-8 has
    // no string form: the handler files all such requests of an endpoint and method under the same
    // key as the empty path (`get_path_as_vec().unwrap_or_default()`) - an observation, not a
    // finding: the properties quantify over paths that are strings
    let mut path = spec.path.clone();
    path.extend(spec.extra.iter().filter(|o| o.0 == 11).map(|o| o.1.clone()));
    if path.iter().any(|s| std::str::from_utf8(s).is_err()) {
        path.clear();
    }
    (ep, method, path)
}

fn run_sequence(rep: &mut Report, r: &mut Rng, level: u32, directed_margin: Option<i64>) {
    let mut budget = pick_budget(r, level);
    let maxlen = if level >= 2 { 40 } else { 6 };
    let n = if r.chance(1, 4) { r.urange(1, maxlen) } else { r.urange(1, 6) };
    let mut server = Server::new(budget, LONG);
    let mut history: Vec<String> = Vec::new();
    // hook-free fallback bookkeeping: bytes sent per key and number of requests
    let mut sent: HashMap<(u32, u8, Vec<Vec<u8>>), (usize, usize)> = HashMap::new();
    for i in 0..n {
        let mut hr = gen_request(r, budget, i);
        if let (Some(margin), 0) = (directed_margin, i) {
            // budget - overhead - 12 in {-1, 0, 1, 15, 16}: rebuild the handler around this request
            let overhead = hr.spec.overhead();
            let b = overhead as i64 + 12 + margin;
            if b >= 0 {
                budget = b as usize;
                server = Server::new(budget, LONG);
            }
            if hr.raw_b1.is_none() && hr.raw_b2.is_none() {
                hr.spec.extra.push((27, block_bytes(0, true, 2)));
                hr.spec.extra.sort_by_key(|o| o.0);
                hr.raw_b1 = Some(block_bytes(0, true, 2));
                // overhead grew by the option: keep the margin exact
                let overhead = hr.spec.overhead();
                let b = overhead as i64 + 12 + margin;
                if b >= 0 {
                    budget = b as usize;
                    server = Server::new(budget, LONG);
                }
            }
        }
        let ep = r.below(2) as u32 + 1;
        let app_reply = gen_app_reply(r);
        history.push(format!("#{} ep{} {} | app would reply {:#x} {}B opts {:?}", i, ep, hr.spec.describe(), app_reply.code, app_reply.payload.len(), app_reply.options.iter().map(|o| (o.0, o.1.len())).collect::<Vec<_>>()));
        let witness = || format!("budget {} sequence:\n  {}", budget, history.join("\n  "));
        set_case_str(&format!("C11 budget {} {}", budget, history.last().unwrap()));
        rep.eval();
        let datagram = hr.spec.bytes();
        let packet = Packet::from_bytes(&datagram).expect("request decodes");
        let mut req = CoapRequest::from_packet(packet, CEp::new(ep));
        let len_before = peek_upload_len(&server, &req).unwrap_or(0);
        let had_response = req.response.is_some();
        let mut app = |_q: &CoapRequest<CEp>| app_reply.clone();
        let ex = server.exchange_request(&mut req, &mut app);
        // ---- no panic
        let mut panicked = false;
        for (name, st) in [("intercept_request", Some(&ex.intercept_request)), ("intercept_response", ex.intercept_response.as_ref())] {
            if let Some(Step::Panic(p)) = st {
                rep.violation(&format!("{}:{}", name, p.sig()), format!("{} (budget {}, request overhead {})", p.text(), budget, hr.spec.overhead()), witness());
                panicked = true;
            }
        }
        if panicked {
            return;
        }
        rep.count("entry_point_calls");
        if ex.intercept_response.is_some() {
            rep.count("entry_point_calls");
        }
        // ---- clean errors
        for st in [Some(&ex.intercept_request), ex.intercept_response.as_ref()].into_iter().flatten() {
            if let Step::Err(e) = st {
                rep.count("handling_errors");
                if had_response {
                    let renderable = e.code.map(|c| c.is_error()).unwrap_or(false);
                    if !renderable {
                        rep.violation("error-not-renderable", format!("handling error with code {:?} ({}) although a response was prepared", e.code, e.message), witness());
                        return;
                    }
                    if ex.error_applied != Some(true) {
                        rep.violation("error-not-applied", format!("apply_from_error returned {:?} for {:?}", ex.error_applied, e.code), witness());
                        return;
                    }
                    match &ex.reply {
                        Some(rp) if u8::from(rp.header.code) >= 0x80 && rp.header.message_id == hr.spec.mid => rep.count("errors_rendered_as_4xx_5xx"),
                        _ => {
                            rep.violation("error-reply-not-encodable", format!("error {:?} could not be rendered: {:?} / {}", e.code, ex.reply_encode_error, ex.summary()), witness());
                            return;
                        }
                    }
                } else {
                    rep.count("errors_without_prepared_response");
                }
            }
        }
        // ---- bounded buffers
        let plen = hr.spec.payload.len();
        let k = key_of(&hr.spec, ep);
        let e = sent.entry(k).or_insert((0, 0));
        e.0 += plen;
        e.1 += 1;
        if let Some(seen) = &ex.app_saw_payload {
            // the body handed over can never exceed what this key's requests carried plus one
            // reserve per request (public-API observation, independent of the hook)
            if seen.len() > e.0 + RESERVE * e.1 {
                rep.violation("delivered-body-exceeds-bound", format!("application received {} bytes after {} requests carrying {} bytes", seen.len(), e.1, e.0), witness());
                return;
            }
            // (the tally is never reset: a plain request that reaches the application does not
            // consume the buffered upload, so the bound stays cumulative per key - weaker but sound)
        }
        if cfg!(has_block_hook) {
            // after the call: the entry may have been handed over (None)
            let probe = CoapRequest::from_packet(Packet::from_bytes(&datagram).unwrap(), CEp::new(ep));
            let len_after = peek_upload_len(&server, &probe).unwrap_or(0);
            let handed_over = ex.app_saw_payload.as_ref().map(|p| p.len()).unwrap_or(0);
            let effective_after = len_after.max(handed_over);
            if effective_after > len_before + plen + RESERVE {
                rep.violation("buffer-growth-exceeds-16KiB", format!("buffer {} -> {} with a {}-byte payload", len_before, effective_after, plen), witness());
                return;
            }
            rep.count("buffer_growth_checked");
            if let Some((num, _more, szx)) = hr.raw_b1.as_ref().and_then(|b| parse_block(b)) {
                let size = szx_size(szx);
                let end = num as usize * size + size;
                if end > len_before && end - len_before > RESERVE {
                    // needs a larger jump: buffer must stay as it was; recognised blocks must be refused
                    if len_after != len_before && ex.app_saw_payload.is_none() {
                        rep.violation("far-jump-changed-buffer", format!("block {} x {} jumps {} bytes past the buffer ({}), buffer is now {}", num, size, end - len_before, len_before, len_after), witness());
                        return;
                    }
                    if num <= 4095 && hr.raw_b1.as_ref().map(|b| b.len() <= 2).unwrap_or(false) {
                        let refused = matches!(ex.intercept_request, Step::Err(_));
                        if !refused {
                            rep.violation("far-jump-not-rejected", format!("block {} x {} jumps {} bytes past the buffer ({}) but was not rejected: {}", num, size, end - len_before, len_before, ex.summary()), witness());
                            return;
                        }
                    }
                    rep.count("far_jumps_rejected");
                } else if matches!(ex.intercept_request, Step::Ok(true)) && len_after > len_before {
                    rep.count("buffer_grew");
                }
            }
        }
        rep.distinct(mix(&[
            budget.min(1400) as u64 / 16,
            hr.raw_b1.as_ref().map(|b| b.len() as u64 + 1).unwrap_or(0),
            hr.raw_b2.as_ref().map(|b| b.len() as u64 + 1).unwrap_or(0),
            (hr.spec.overhead() > budget) as u64,
            hr.spec.typ as u64,
            match &ex.intercept_request {
                Step::Ok(true) => 1,
                Step::Ok(false) => 2,
                _ => 3,
            },
        ]));
        rep.sample_every(50_021, || format!("budget {} {} -> {}", budget, history.last().unwrap(), ex.summary()));
    }
    rep.count("sequences_completed");
}

pub fn run_c11(ctx: &mut Ctx) {
    let mut r = ctx.rng(11);
    let (level, budget) = (ctx.level, ctx.budget);
    let rep = &mut ctx.rep;
    if cfg!(has_block_hook) {
        rep.note("buffered upload length observed through the cfg(coap_lite_verif) hook before and after every call");
    } else {
        rep.note("hook absent: buffer bound judged on the body finally handed to the application");
    }
    for m in [-1i64, 0, 1, 15, 16, 2, 3] {
        for _ in 0..(if level == 0 { 1 } else { (budget / 200).max(6) }) {
            run_sequence(rep, &mut r, level, Some(m));
        }
    }
    for _ in 0..budget {
        run_sequence(rep, &mut r, level, None);
    }
    // directed: far jumps against an existing buffer, and a slow crawl that stays inside the reserve
    directed_jumps(rep, if level == 0 { &[6] } else { &[0, 1, 2, 3, 4, 5, 6] });
    directed_window(rep, &mut r, if level == 0 { 2 } else { (budget / 20).max(40) as usize });
    direct_splice(rep, &mut r, if level == 0 { 20 } else { 2000 });
    rep.floor("direct_splice_refused", 1);
    rep.floor("direct_splice_ok", 1);
    if cfg!(has_block_hook) {
        rep.floor("window_jumps_rejected", 1);
        rep.floor("window_jumps_admitted", 1);
    }
    rep.floor("entry_point_calls", 10);
    rep.floor("handling_errors", 1);
    if cfg!(has_block_hook) {
        rep.floor("far_jumps_rejected", 1);
        rep.floor("buffer_grew", 1);
    }
    rep.sample(|| format!("hex of a malformed block option used: {}", hex(&[0xff, 0xff, 0xff, 0x0f])));
}

/// Jumps aimed at the edge of the reserve, with payloads both within and beyond the declared
/// block size: from a buffer of known length L, a block whose end lies L + 16384 + d for small d.
fn directed_window(rep: &mut Report, r: &mut Rng, rounds: usize) {
    if !cfg!(has_block_hook) {
        return;
    }
    for _ in 0..rounds {
        let mut server = Server::new(1280, LONG);
        let mut app = |_q: &CoapRequest<CEp>| AppReply { code: 0x44, options: vec![], payload: vec![] };
        let mut hist: Vec<String> = Vec::new();
        let nsteps = r.urange(2, 5);
        let opening_block = r.bool();
        for step in 0..nsteps {
            rep.eval();
            let mut spec = ReqSpec::new(3, &["win"]);
            spec.mid = step as u16;
            let probe = CoapRequest::from_packet(Packet::from_bytes(&spec.bytes()).unwrap(), CEp::new(1));
            let before = peek_upload_len(&server, &probe).unwrap_or(0);
            // payload possibly much longer than the declared block
            let plen = *r.pick(&[0usize, 1, 16, 100, 600, 1100, 1200]);
            let szx = r.below(7) as u8;
            let size = szx_size(szx);
            // aim the end of the block at the edge of the reserve
            let d: i64 = *r.pick(&[-(size as i64), -1, 0, 1, 15, 16, 17, 500, 1183, 1184, 1185, 1200, 1201, 3000, 20000, 60000]);
            let target_end = (before as i64 + RESERVE as i64 + d).max(size as i64);
            let mut num = ((target_end as usize).div_ceil(size)).max(1) - 1; // end = (num+1)*size >= target
            if step == 0 && opening_block {
                // the upload opens regularly with block 0 (possibly announcing a large total size)
                num = 0;
            }
            if num > 4095 {
                continue;
            }
            spec.block1 = Some((num as u32, true, szx));
            spec.payload = vec![0x5a; plen];
            if step == 0 || r.chance(1, 4) {
                // announce a (large) total size with the block
                let v = *r.pick(&[17000u64, 100_000, 300_000, 0xffff_ffff]);
                if r.bool() {
                    spec.extra.push((60, crate::optval::min_be(v)));
                }
            }
            hist.push(spec.describe());
            let mut req = CoapRequest::from_packet(Packet::from_bytes(&spec.bytes()).unwrap(), CEp::new(1));
            let ex = server.exchange_request(&mut req, &mut app);
            let after = peek_upload_len(&server, &probe).unwrap_or(0);
            let wit = format!("budget 1280, buffer {} bytes before the last request; sequence: {}", before, hist.join(" ; "));
            if let Step::Panic(p) = &ex.intercept_request {
                rep.violation(&format!("intercept_request:{}", p.sig()), p.text(), wit);
                break;
            }
            let end = (num + 1) * size;
            if after > before + plen + RESERVE {
                rep.violation("buffer-growth-exceeds-16KiB", format!("buffer {} -> {} with a {}-byte payload (block {} x {})", before, after, plen, num, size), wit);
                break;
            }
            if end > before && end - before > RESERVE {
                if !matches!(ex.intercept_request, Step::Err(_)) || after != before {
                    rep.violation("far-jump-not-rejected", format!("block {} x {} ends {} bytes past a {}-byte buffer (payload {} bytes): {} ; buffer now {}", num, size, end - before, before, plen, ex.summary(), after), wit);
                    break;
                }
                rep.count("far_jumps_rejected");
                rep.count("window_jumps_rejected");
            } else {
                if matches!(ex.intercept_request, Step::Err(_)) {
                    // admissible jump refused: only a finding when nothing else explains it
                    rep.count("window_admissible_jump_refused");
                } else {
                    rep.count("window_jumps_admitted");
                }
            }
        }
    }
}


/// The public helper behind the buffer bound, exercised directly against a model:
/// extension beyond `max` is refused and leaves the vector untouched; otherwise the result is the
/// zero-extended vector with the range replaced.
fn direct_splice(rep: &mut Report, r: &mut Rng, n: usize) {
    use coap_lite::block_handler::extending_splice;
    for _ in 0..n {
        rep.eval();
        let len = r.usize_below(300);
        let start = r.usize_below(400);
        let width = r.usize_below(80);
        let max = *r.pick(&[0usize, 1, 16, 64, 100, 16384]);
        let repl_len = r.usize_below(100);
        let inclusive = r.bool();
        let dst0: Vec<u8> = (0..len).map(|i| (i % 251) as u8 + 1).collect();
        let repl: Vec<u8> = (0..repl_len).map(|i| 200 + (i % 50) as u8).collect();
        let end_excl = start + width;
        if inclusive && width == 0 {
            continue;
        }
        let mut dst = dst0.clone();
        let res = crate::panicwatch::guard(|| {
            let ok = if inclusive {
                extending_splice(&mut dst, start..=end_excl - 1, repl.iter().copied(), max).map(|sp| drop(sp)).is_ok()
            } else {
                extending_splice(&mut dst, start..end_excl, repl.iter().copied(), max).map(|sp| drop(sp)).is_ok()
            };
            ok
        });
        let wit = format!("extending_splice(len {}, {}..{}{}, {} replacement bytes, max {})", len, start, if inclusive { "=" } else { "" }, if inclusive { end_excl - 1 } else { end_excl }, repl_len, max);
        let need = end_excl.saturating_sub(len);
        match res {
            Err(p) => rep.violation(&format!("extending_splice:{}", p.sig()), p.text(), wit),
            Ok(ok) => {
                if need > max {
                    if ok || dst != dst0 {
                        rep.violation("extending-splice-beyond-reserve", format!("extension by {} accepted (ok={}) or vector changed ({} -> {} bytes)", need, ok, dst0.len(), dst.len()), wit);
                    } else {
                        rep.count("direct_splice_refused");
                    }
                } else {
                    let mut model = dst0.clone();
                    if model.len() < end_excl {
                        model.resize(end_excl, 0);
                    }
                    let tail: Vec<u8> = model[end_excl..].to_vec();
                    model.truncate(start);
                    model.extend_from_slice(&repl);
                    model.extend_from_slice(&tail);
                    if !ok || dst != model {
                        rep.violation("extending-splice-result", format!("ok={} result {} bytes, model {} bytes", ok, dst.len(), model.len()), wit);
                    } else {
                        rep.count("direct_splice_ok");
                    }
                }
            }
        }
    }
}

fn directed_jumps(rep: &mut Report, szxs: &[u8]) {
    for &szx in szxs {
        let size = szx_size(szx);
        let mut server = Server::new(1280, LONG);
        let mut app = |_q: &CoapRequest<CEp>| AppReply { code: 0x44, options: vec![], payload: vec![] };
        let mut hist = Vec::new();
        // block 0, then the largest admissible jump, then one block too far
        let first_ok = RESERVE / size - 1; // end = (num+1)*size <= 16384 from an empty buffer
        let plan = [(0u32, true), (first_ok as u32, true), ((first_ok + 1 + RESERVE / size) as u32 + 1, true), (u32::from(u16::MAX).min(4095), true)];
        for (num, more) in plan {
            rep.eval();
            let mut spec = ReqSpec::new(3, &["jump"]);
            spec.block1 = Some((num, more, szx));
            spec.payload = vec![0x11; size];
            hist.push(spec.describe());
            let mut req = CoapRequest::from_packet(Packet::from_bytes(&spec.bytes()).unwrap(), CEp::new(1));
            let before = peek_upload_len(&server, &req);
            let ex = server.exchange_request(&mut req, &mut app);
            let probe = CoapRequest::from_packet(Packet::from_bytes(&spec.bytes()).unwrap(), CEp::new(1));
            let after = peek_upload_len(&server, &probe);
            let wit = format!("budget 1280 sequence: {}", hist.join(" ; "));
            if let Step::Panic(p) = &ex.intercept_request {
                rep.violation(&format!("intercept_request:{}", p.sig()), p.text(), wit);
                break;
            }
            let end = (num as usize + 1) * size;
            let b = before.unwrap_or(0);
            if cfg!(has_block_hook) {
                if end > b && end - b > RESERVE {
                    if !matches!(ex.intercept_request, Step::Err(_)) || after.unwrap_or(0) != b {
                        rep.violation("far-jump-not-rejected", format!("block {} x {} from buffer {}: {} (buffer now {:?})", num, size, b, ex.summary(), after), wit);
                        break;
                    }
                    rep.count("far_jumps_rejected");
                } else {
                    if !matches!(ex.intercept_request, Step::Ok(true)) || after != Some(end.max(b)) {
                        rep.violation("admissible-jump-refused-or-miscounted", format!("block {} x {} from buffer {}: {} (buffer now {:?}, expected {})", num, size, b, ex.summary(), after, end.max(b)), wit);
                        break;
                    }
                    rep.count("buffer_grew");
                }
            } else if end > RESERVE * hist.len() && matches!(ex.intercept_request, Step::Ok(true)) {
                rep.violation("far-jump-not-rejected", format!("block {} x {}: {}", num, size, ex.summary()), wit);
                break;
            }
        }
    }
}
