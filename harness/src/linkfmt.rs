//! RFC 6690 link-format: C16 (writer output parses back), C17 (parser total, unquoting paths
//! agree), C18 (writer reports every sink failure, writes nothing after it).

use crate::ctx::Ctx;
use crate::panicwatch::{guard, set_case, set_case_str};
use crate::report::Report;
use crate::rng::{fnv, Rng};
use coap_lite::link_format::{LinkFormatParser, LinkFormatWrite};
use std::fmt;

#[derive(Clone, Debug, PartialEq)]
pub enum AttrKind {
    Plain(String),
    Quoted(String),
    U32(u32),
    U16(u16),
}

impl AttrKind {
    fn text(&self) -> String {
        match self {
            AttrKind::Plain(s) | AttrKind::Quoted(s) => s.clone(),
            AttrKind::U32(n) => n.to_string(),
            AttrKind::U16(n) => n.to_string(),
        }
    }
}

#[derive(Clone, Debug, PartialEq)]
pub struct Link {
    pub target: String,
    pub attrs: Vec<(String, AttrKind)>,
}

pub type Doc = Vec<Link>;

pub fn describe(doc: &Doc) -> String {
    format!("{:?}", doc)
}

thread_local! {
    /// how the per-link writers are ended: 0 = `finish()` on every link, 1 = dropped without
    /// `finish()` (the call is optional: only `LinkFormatWrite::finish` reports the final result),
    /// 2 = alternating
    pub static FINISH_STYLE: std::cell::Cell<u8> = const { std::cell::Cell::new(0) };
}

/// Write `doc` to `sink`.  Returns (per-link finish results with the sink call count at that
/// moment, final result).
pub fn write_doc<W: fmt::Write + CallCount>(doc: &Doc, newlines: bool, sink: &mut W) -> (Vec<(usize, bool)>, bool) {
    let style = FINISH_STYLE.with(|c| c.get());
    // the writer borrows the sink mutably, so call counts are read through a raw cell
    let counter = sink.counter();
    let mut per_link = Vec::new();
    let mut w = LinkFormatWrite::new(sink);
    w.set_add_newlines(newlines);
    for (li, link) in doc.iter().enumerate() {
        let mut a = w.link(&link.target);
        for (k, v) in &link.attrs {
            a = match v {
                AttrKind::Plain(s) => a.attr(k, s),
                AttrKind::Quoted(s) => a.attr_quoted(k, s),
                AttrKind::U32(n) => a.attr_u32(k, *n),
                AttrKind::U16(n) => a.attr_u16(k, *n),
            };
        }
        if style == 0 || (style == 2 && li % 2 == 1) {
            let ok = a.finish().is_ok();
            per_link.push((counter.get(), ok));
        } else {
            let _ = a;
        }
    }
    let fin = w.finish().is_ok();
    (per_link, fin)
}

pub trait CallCount {
    fn counter(&self) -> std::rc::Rc<std::cell::Cell<usize>>;
}

// ------------------------------------------------------------------------------------------
// document generator

const TARGET_CHARS: &[char] = &['/', 'a', 'b', '.', '-', '0', ' ', ',', ';', '"', '<', '=', '\\', 'é', '😁', ':', '?'];
const KEYS: &[&str] = &[
    "rt", "if", "sz", "title", "ct", "obs", "title*", "k", "x-y_z", "a1", "anchor", "rel", "rel", "rt", "lt", "ct", "sz",
    "x-a-rather-long-attribute-name", "registration-lifetime-seconds-0123456789", "k0123456789012345678", "k01234567890123456789", "k012345678901234567890123456",
];
/// numbers with a meaning in some registry (content formats, typical sizes / lifetimes) next to the boundaries
pub const NUMBERS: &[u32] = &[0, 1, 9, 10, 40, 41, 42, 47, 50, 60, 61, 62, 99, 100, 110, 112, 255, 256, 999, 1000, 1024, 10000, 11542, 11543, 65535, 65536, 86400, 16_777_216, 4_294_967_295];
/// texts that look like numbers (or like other literals) without being their canonical spelling
pub const NUMBER_LIKE: &[&str] = &["0", "00", "060", "007", "+1024", "+0", "-0", "-1", "1e3", "0x10", " 1", "1 ", "4294967295", "4294967296", "04294967295", "65536", "065535", "١٢", "1_000", "1.0", "true", "false", "null", "NaN", "40", "40 ", "0b1"];
/// multi-character sequences with a meaning in neighbouring grammars (header folding, percent and
/// MIME encodings, escapes of escapes), for insertion into otherwise random text
/// RFC 8187 extended values, as they appear under keys ending in '*'
pub const EXT_VALUES: &[&str] = &["UTF-8'en'%C2%A3%20rates", "utf-8''Thermometer", "utf-8'en'\u{a3} rates", "iso-8859-1'de'%E4", "UTF-8'", "utf-8''"];
pub const DICTIONARY: &[&str] = &["\r\n ", "\r\n\t", "\r\n", "\n\r", "\n ", "\\\"", "\\\\", "\"\"", "%22", "%5C", "=?UTF-8?Q?a?=", "\\\r\n ", "\u{0}", "&quot;", "\\u0022", "\\x22", "\\,", "\\;", "*=UTF-8''a"];
pub const VALUE_ALPHABET: &[char] = &['"', '\\', ',', ';', '<', '>', '=', ' ', '\n', '\r', 'a', '0', 'é', '😁'];

/// code points whose low byte (or low 16 bits) equals a structural ASCII character: " \ , ; < > =
pub fn lookalikes() -> Vec<char> {
    let mut v = Vec::new();
    for c in ['"', '\\', ',', ';', '<', '>', '=', ' '] {
        for hi in [0x100u32, 0x2000, 0x1F600, 0x10000] {
            if let Some(ch) = char::from_u32(hi + c as u32) {
                v.push(ch);
            }
        }
    }
    v
}

fn gen_target(r: &mut Rng) -> String {
    match r.below(5) {
        0 => "/sensors/temp".to_string(),
        1 => String::new(),
        _ => {
            let n = r.usize_below(12);
            (0..n).map(|_| *r.pick(TARGET_CHARS)).collect()
        }
    }
}

fn gen_value(r: &mut Rng) -> String {
    let mut v = gen_value_plain(r);
    if r.chance(1, 5) {
        // a dictionary sequence somewhere in the value
        let at = r.usize_below(v.chars().count() + 1);
        let byte = v.char_indices().nth(at).map(|x| x.0).unwrap_or(v.len());
        v.insert_str(byte, *r.pick(DICTIONARY));
    }
    v
}

fn gen_value_plain(r: &mut Rng) -> String {
    if r.chance(1, 8) {
        return r.pick(NUMBER_LIKE).to_string();
    }
    match r.below(6) {
        0 => String::new(),
        1 => {
            let n = r.usize_below(8) + 1;
            (0..n).map(|_| *r.pick(&['a', 'Z', '9', 'q'])).collect()
        }
        2 => {
            let n = r.usize_below(41);
            (0..n).map(|_| *r.pick(VALUE_ALPHABET)).collect()
        }
        3 => {
            let n = r.usize_below(6);
            (0..n).map(|_| *r.pick(&['"', '\\'])).collect()
        }
        4 => {
            let n = r.usize_below(20);
            if r.bool() {
                (0..n).map(|_| char::from_u32(r.range(0x20, 0x2ff) as u32).unwrap_or('x')).collect()
            } else {
                // characters that look like structural ones after truncation, next to real ones
                let la = lookalikes();
                (0..n).map(|_| if r.chance(2, 3) { *r.pick(&la) } else { *r.pick(VALUE_ALPHABET) }).collect()
            }
        }
        _ => {
            let n = r.usize_below(10);
            let mut s: String = (0..n).map(|_| *r.pick(VALUE_ALPHABET)).collect();
            if r.bool() {
                s.push('\\');
            }
            if r.bool() {
                s.insert(0, ' ');
            }
            s
        }
    }
}

pub fn gen_doc(r: &mut Rng, min_links: usize) -> Doc {
    let nl = r.urange(min_links, 4.max(min_links));
    (0..nl)
        .map(|_| {
            let na = r.usize_below(5);
            Link {
                target: gen_target(r),
                attrs: (0..na)
                    .map(|_| {
                        let k = r.pick(KEYS).to_string();
                        let v = match r.below(6) {
                            0 => AttrKind::U32(if r.bool() { r.next_u64() as u32 } else { *r.pick(NUMBERS) }),
                            1 => AttrKind::U16(if r.bool() { r.next_u64() as u16 } else { *r.pick(NUMBERS) as u16 }),
                            2 | 3 => AttrKind::Plain(gen_value(r)),
                            _ => AttrKind::Quoted(gen_value(r)),
                        };
                        (k, v)
                    })
                    .collect(),
            }
        })
        .collect()
}

// ------------------------------------------------------------------------------------------
// sinks

pub struct PlainSink {
    pub out: String,
    calls: std::rc::Rc<std::cell::Cell<usize>>,
}

impl PlainSink {
    pub fn new() -> Self {
        PlainSink { out: String::new(), calls: Default::default() }
    }
}

impl Default for PlainSink {
    fn default() -> Self {
        Self::new()
    }
}

impl fmt::Write for PlainSink {
    fn write_str(&mut self, s: &str) -> fmt::Result {
        self.calls.set(self.calls.get() + 1);
        self.out.push_str(s);
        Ok(())
    }
}

impl CallCount for PlainSink {
    fn counter(&self) -> std::rc::Rc<std::cell::Cell<usize>> {
        self.calls.clone()
    }
}

#[derive(Clone, Copy, Debug, PartialEq)]
pub enum FailMode {
    Never,
    Once(usize),
    From(usize),
}

/// fmt::Write that logs every call and fails call k once or from k on.
pub struct FaultSink {
    pub content: String,
    pub log: Vec<(String, bool)>,
    pub mode: FailMode,
    calls: std::rc::Rc<std::cell::Cell<usize>>,
}

impl FaultSink {
    pub fn new(mode: FailMode) -> Self {
        FaultSink { content: String::new(), log: Vec::new(), mode, calls: Default::default() }
    }
}

impl fmt::Write for FaultSink {
    fn write_str(&mut self, s: &str) -> fmt::Result {
        let k = self.calls.get();
        self.calls.set(k + 1);
        let fail = match self.mode {
            FailMode::Never => false,
            FailMode::Once(i) => k == i,
            FailMode::From(i) => k >= i,
        };
        self.log.push((s.to_string(), !fail));
        if fail {
            Err(fmt::Error)
        } else {
            self.content.push_str(s);
            Ok(())
        }
    }
}

impl CallCount for FaultSink {
    fn counter(&self) -> std::rc::Rc<std::cell::Cell<usize>> {
        self.calls.clone()
    }
}

// ------------------------------------------------------------------------------------------
// C16

type Parsed = Vec<(String, Vec<(String, String, String)>)>; // target, (key, to_string, to_cow)

fn parse_doc(s: &str) -> Result<Parsed, String> {
    let mut out = Vec::new();
    let mut steps = 0usize;
    for item in LinkFormatParser::new(s) {
        steps += 1;
        if steps > s.len() + 2 {
            return Err("link iterator does not terminate".into());
        }
        match item {
            Err(e) => return Err(format!("{:?} after {} links", e, out.len())),
            Ok((target, attrs)) => {
                let mut av = Vec::new();
                let mut asteps = 0usize;
                for (k, v) in attrs {
                    asteps += 1;
                    if asteps > s.len() + 2 {
                        return Err("attribute iterator does not terminate".into());
                    }
                    av.push((k.to_string(), v.to_string(), v.to_cow().into_owned()));
                }
                out.push((target.to_string(), av));
            }
        }
    }
    Ok(out)
}

fn c16_one(rep: &mut Report, doc: &Doc, newlines: bool) {
    rep.eval();
    set_case_str(&format!("C16 {:?} nl={}", doc, newlines));
    let wit = || format!("doc {} newlines={}", describe(doc), newlines);
    let mut sink = PlainSink::new();
    let res = guard(|| write_doc(doc, newlines, &mut sink));
    let (per_link, fin) = match res {
        Err(p) => {
            rep.violation(&format!("write-{}", p.sig()), p.text(), wit());
            return;
        }
        Ok(x) => x,
    };
    if !fin || per_link.iter().any(|x| !x.1) {
        rep.violation("writer-error-on-infallible-sink", "finish() returned an error although the sink never fails".into(), wit());
        return;
    }
    let text = sink.out;
    let parsed = match guard(|| parse_doc(&text)) {
        Err(p) => {
            rep.violation(&format!("parse-{}", p.sig()), format!("{} while parsing the writer's output {:?}", p.text(), text), wit());
            return;
        }
        Ok(Err(e)) => {
            rep.violation("writer-output-does-not-parse", format!("{} in {:?}", e, text), wit());
            return;
        }
        Ok(Ok(p)) => p,
    };
    if parsed.len() != doc.len() {
        rep.violation("link-count", format!("{} links written, {} parsed from {:?}", doc.len(), parsed.len(), text), wit());
        return;
    }
    for (i, (link, (target, attrs))) in doc.iter().zip(parsed.iter()).enumerate() {
        if &link.target != target {
            rep.violation("link-target", format!("link {}: target {:?} parsed as {:?} from {:?}", i, link.target, target, text), wit());
            return;
        }
        if link.attrs.len() != attrs.len() {
            rep.violation("attr-count", format!("link {}: {} attributes written, {} parsed ({:?}) from {:?}", i, link.attrs.len(), attrs.len(), attrs, text), wit());
            return;
        }
        for ((k, v), (pk, ps, pc)) in link.attrs.iter().zip(attrs.iter()) {
            if k != pk {
                rep.violation("attr-key", format!("key {:?} parsed as {:?} from {:?}", k, pk, text), wit());
                return;
            }
            if &v.text() != ps {
                rep.violation("attr-value", format!("value {:?} unquotes to {:?} (text {:?})", v.text(), ps, text), wit());
                return;
            }
            if ps != pc {
                rep.violation("attr-value-cow", format!("to_cow {:?} differs from to_string {:?} (text {:?})", pc, ps, text), wit());
                return;
            }
        }
    }
    rep.count("documents_round_tripped");
    rep.add("attributes_round_tripped", doc.iter().map(|l| l.attrs.len() as u64).sum());
    if text.contains('\\') {
        rep.count("documents_with_escapes");
    }
    if newlines && doc.len() > 1 {
        rep.count("documents_with_newline_separator");
    }
    rep.sample_every(2503, || format!("{} -> {:?}", describe(doc), text));
}

pub fn run_c16(ctx: &mut Ctx) {
    let mut r = ctx.rng(16);
    let (level, budget, shard, nshards) = (ctx.level, ctx.budget, ctx.shard, ctx.nshards);
    let rep = &mut ctx.rep;
    // exhaustive values over the structural alphabet
    let maxlen = match level {
        0 => 2,
        1 => 3,
        _ => 4,
    };
    let a = VALUE_ALPHABET.len() as u64;
    let mut idx = 0u64;
    for len in 0..=maxlen {
        for v in 0..a.pow(len as u32) {
            idx += 1;
            if idx % nshards != shard {
                continue;
            }
            let mut s = String::new();
            let mut x = v;
            for _ in 0..len {
                s.push(VALUE_ALPHABET[(x % a) as usize]);
                x /= a;
            }
            // the value sits in every structural position: followed by another attribute, last
            // attribute of a link that is followed by another link, and last attribute of the last link
            let doc = vec![
                Link { target: "/x".into(), attrs: vec![("k".into(), AttrKind::Plain(s.clone())), ("n".into(), AttrKind::U16(7)), ("q".into(), AttrKind::Quoted(s.clone()))] },
                Link { target: "/y".into(), attrs: vec![("z".into(), AttrKind::Quoted(s.clone())), ("p".into(), AttrKind::Plain(s.clone()))] },
                Link { target: "/w".into(), attrs: vec![] },
                Link { target: "/v".into(), attrs: vec![("l".into(), AttrKind::Quoted(s.clone()))] },
            ];
            c16_one(rep, &doc, idx % 2 == 0);
            rep.distinct(fnv(s.as_bytes()));
        }
    }
    if shard == 0 {
        for la in lookalikes() {
            for follow in ["", ",", ";", "x", "\"", "\\", ",;x"] {
                let s = format!("{}{}", la, follow);
                let doc = vec![
                    Link { target: "/x".into(), attrs: vec![("k".into(), AttrKind::Plain(s.clone())), ("q".into(), AttrKind::Quoted(s.clone()))] },
                    Link { target: format!("/{}", la), attrs: vec![("z".into(), AttrKind::Quoted(s.clone()))] },
                    Link { target: "/v".into(), attrs: vec![("l".into(), AttrKind::Plain("end".into()))] },
                ];
                c16_one(rep, &doc, follow.len() % 2 == 0);
                rep.distinct(fnv(s.as_bytes()));
                rep.count("lookalike_documents");
            }
        }
    }
    {
        for key in ["title*", "rt*"] {
            for v in EXT_VALUES {
                let doc = vec![Link { target: "/e".into(), attrs: vec![(key.to_string(), AttrKind::Plain(v.to_string())), ("n".into(), AttrKind::U16(1)), (key.to_string(), AttrKind::Quoted(v.to_string()))] }];
                c16_one(rep, &doc, v.len() % 2 == 0);
                rep.count("extended_value_documents");
            }
        }
        // number-like texts and registry numbers under keys that usually hold numbers: the text written is the text read
        let mut di = 0u64;
        for (ki, key) in ["ct", "sz", "lt", "rt", "obs", "title", "k"].iter().enumerate() {
            if level == 0 && ki % 3 != 0 {
                continue;
            }
            for (vi, text) in NUMBER_LIKE.iter().map(|t| t.to_string()).chain(NUMBERS.iter().map(|n| n.to_string())).enumerate() {
                di += 1;
                if di % nshards != shard {
                    continue;
                }
                let doc = vec![
                    Link { target: "/n".into(), attrs: vec![(key.to_string(), AttrKind::Plain(text.clone())), ("end".into(), AttrKind::U16(1))] },
                    Link { target: "/m".into(), attrs: vec![("a".into(), AttrKind::Plain("b".into())), (key.to_string(), AttrKind::Quoted(text.clone()))] },
                    Link { target: "/o".into(), attrs: vec![(key.to_string(), AttrKind::Plain(text.clone()))] },
                ];
                c16_one(rep, &doc, vi % 2 == 0);
                rep.distinct(fnv(describe(&doc).as_bytes()));
                rep.count("number_like_documents");
            }
            for n in NUMBERS {
                di += 1;
                if di % nshards != shard {
                    continue;
                }
                let doc = vec![
                    Link { target: "/n".into(), attrs: vec![(key.to_string(), AttrKind::U32(*n)), ("end".into(), AttrKind::Plain("x".into()))] },
                    Link { target: "/m".into(), attrs: vec![("a".into(), AttrKind::Plain("b".into())), (key.to_string(), AttrKind::U16(*n as u16))] },
                ];
                c16_one(rep, &doc, n % 2 == 0);
                rep.distinct(fnv(describe(&doc).as_bytes()));
                rep.count("number_like_documents");
            }
        }
    }
    {
        // white space of every kind (ASCII and not) at the start / end / both ends of values that are otherwise letters and digits
        let ws = ['\u{a0}', '\u{85}', '\u{1680}', '\u{2000}', '\u{2003}', '\u{200a}', '\u{2028}', '\u{2029}', '\u{202f}', '\u{205f}', '\u{3000}', ' ', '\t', '\n', '\r', '\u{b}', '\u{c}', '\u{feff}', '\u{200b}'];
        let mut di = 0u64;
        for w in ws {
            for core in ["", "20", "\u{6e29}\u{5ea6}", "caf\u{e9}", "a b"] {
                for shape in 0..3 {
                    di += 1;
                    if di % nshards != shard || (level == 0 && di % 5 != 0) {
                        continue;
                    }
                    let v = match shape {
                        0 => format!("{}{}", w, core),
                        1 => format!("{}{}", core, w),
                        _ => format!("{}{}{}", w, core, w),
                    };
                    let doc = vec![
                        Link { target: "/w".into(), attrs: vec![("t".into(), AttrKind::Plain(v.clone())), ("n".into(), AttrKind::U16(1)), ("q".into(), AttrKind::Quoted(v.clone()))] },
                        Link { target: format!("/{}", v), attrs: vec![("l".into(), AttrKind::Plain(v.clone()))] },
                    ];
                    c16_one(rep, &doc, shape % 2 == 0);
                    rep.distinct(fnv(v.as_bytes()));
                    rep.count("edge_white_space_documents");
                }
            }
        }
    }
    {
        // long and wide values: every structural character inside, at byte lengths around the powers of
        // two and beyond, made of 1-, 2- and 4-byte characters; followed by more attributes and links
        let lens: &[usize] = if level == 0 { &[128, 300] } else { &[60, 100, 127, 128, 129, 160, 200, 255, 256, 257, 300, 511, 512, 513, 1000, 1024, 1025, 2048, 2049, 5000, 20000] };
        let units: [&[&str]; 4] = [&["a", ",", "b", ";", "c", "=", "<", ">", " ", "\"", "\\"], &["\u{1f600}", ",", "\u{1f600}", ";", "\u{1f600}"], &["\u{e9}", "\"", "\u{e9}", "\\", ",", ";"], &["\u{1f600}"]];
        let mut di = 0u64;
        for &len in lens {
            for (ui, unit) in units.iter().enumerate() {
                di += 1;
                if di % nshards != shard {
                    continue;
                }
                let mut v = String::new();
                let mut k = 0usize;
                while v.len() < len {
                    v.push_str(unit[k % unit.len()]);
                    k += 1;
                }
                let doc = vec![
                    Link { target: "/wide".into(), attrs: vec![("title".into(), AttrKind::Quoted(v.clone())), ("rt".into(), AttrKind::Quoted("after".into())), ("n".into(), AttrKind::U16(3))] },
                    Link { target: "/next".into(), attrs: vec![("rt".into(), AttrKind::Quoted("x,y;z".into())), ("p".into(), AttrKind::Plain(v.clone()))] },
                    Link { target: v.chars().filter(|c| *c != '>').collect(), attrs: vec![("k".into(), AttrKind::Plain("end".into()))] },
                ];
                c16_one(rep, &doc, ui % 2 == 0);
                rep.distinct(fnv(v.as_bytes()) ^ len as u64);
                rep.count("wide_value_documents");
            }
        }
    }
    for _ in 0..budget {
        let doc = gen_doc(&mut r, 0);
        let nl = r.bool();
        rep.distinct(fnv(describe(&doc).as_bytes()));
        c16_one(rep, &doc, nl);
    }
    rep.floor("documents_round_tripped", 1);
    rep.floor("documents_with_escapes", 1);
    rep.floor("documents_with_newline_separator", 1);
}

// ------------------------------------------------------------------------------------------
// C17

fn within(base: &str, sub: &str) -> bool {
    if sub.is_empty() {
        return true;
    }
    let b = base.as_ptr() as usize;
    let p = sub.as_ptr() as usize;
    p >= b && p + sub.len() <= b + base.len()
}

/// Drain every iterator the parser offers for `s`, checking totality, substring-ness, order,
/// silence after an error, and agreement of the two unquoting paths.
/// Returns Err((signature, detail)) on the first violated clause.
fn c17_drain(s: &str, stats: &mut (u64, u64, u64, u64)) -> Result<(), (String, String)> {
    let bound = s.len() + 2;
    let mut it = LinkFormatParser::new(s);
    let mut steps = 0usize;
    let mut last_target_start = 0usize;
    loop {
        steps += 1;
        if steps > bound {
            return Err(("link-iterator-nontermination".into(), format!("more than {} items", bound)));
        }
        match it.next() {
            None => {
                // fused: stays None
                if it.next().is_some() {
                    return Err(("item-after-end".into(), "iterator yielded an item after None".into()));
                }
                break;
            }
            Some(Err(_)) => {
                stats.3 += 1;
                let mut k = 0;
                while k < 3 {
                    if let Some(x) = it.next() {
                        return Err(("item-after-error".into(), format!("iterator yielded {:?} after reporting an error", x.map(|t| t.0))));
                    }
                    k += 1;
                }
                break;
            }
            Some(Ok((target, attrs))) => {
                stats.0 += 1;
                if !within(s, target) {
                    return Err(("target-not-substring".into(), format!("target {:?} is not a substring of the input", target)));
                }
                if !target.is_empty() {
                    let start = target.as_ptr() as usize - s.as_ptr() as usize;
                    if start < last_target_start {
                        return Err(("targets-out-of-order".into(), format!("target at {} after target at {}", start, last_target_start)));
                    }
                    last_target_start = start;
                }
                let mut asteps = 0usize;
                let mut last_key_start = 0usize;
                let mut ait = attrs;
                loop {
                    asteps += 1;
                    if asteps > bound {
                        return Err(("attr-iterator-nontermination".into(), format!("more than {} attributes", bound)));
                    }
                    let (key, value) = match ait.next() {
                        None => break,
                        Some(x) => x,
                    };
                    stats.1 += 1;
                    if !within(s, key) {
                        return Err(("key-not-substring".into(), format!("key {:?} is not a substring of the input", key)));
                    }
                    if !key.is_empty() {
                        let start = key.as_ptr() as usize - s.as_ptr() as usize;
                        if start < last_key_start {
                            return Err(("keys-out-of-order".into(), format!("key at {} after key at {}", start, last_key_start)));
                        }
                        last_key_start = start;
                    }
                    let raw = value.clone().into_raw_str();
                    if !within(s, raw) {
                        return Err(("value-not-substring".into(), format!("value {:?} is not a substring of the input", raw)));
                    }
                    // character-by-character path (bounded) and the Display/to_string path
                    let mut chars = String::new();
                    let mut n = 0usize;
                    for c in value.clone() {
                        n += 1;
                        if n > raw.len() + 2 {
                            return Err(("unquote-nontermination".into(), format!("more than {} chars from {:?}", n, raw)));
                        }
                        chars.push(c);
                    }
                    let via_display = value.to_string();
                    if via_display != chars {
                        return Err(("display-vs-chars".into(), format!("to_string {:?} vs chars {:?} for {:?}", via_display, chars, raw)));
                    }
                    let cow = value.to_cow();
                    stats.2 += 1;
                    if cow.as_ref() != chars {
                        return Err(("to_cow-differs-from-to_string".into(), format!("value {:?}: to_cow {:?}, to_string {:?}", raw, cow, chars)));
                    }
                    if let std::borrow::Cow::Borrowed(b) = cow {
                        if !within(s, b) {
                            return Err(("cow-not-substring".into(), format!("borrowed {:?} is not a substring of the input", b)));
                        }
                    }
                }
            }
        }
    }
    Ok(())
}

fn c17_one(rep: &mut Report, s: &str, stats: &mut (u64, u64, u64, u64)) {
    rep.eval();
    set_case(s.as_bytes());
    crate::panicwatch::set_case_is_hex(false);
    match guard(|| c17_drain(s, stats)) {
        Err(p) => {
            let kind = if p.file.contains("link_format") || p.file.starts_with("std:") { "to_cow-or-parser-panic" } else { "panic" };
            rep.violation(&format!("{}:{}", kind, p.sig()), p.text(), format!("{:?}", s));
        }
        Ok(Err((sig, detail))) => rep.violation(&sig, detail, format!("{:?}", s)),
        Ok(Ok(())) => {}
    }
}

pub const C17_ALPHABET: &[char] = &['<', '>', ';', ',', '"', '\\', '=', ' ', 'a', 'é'];

pub fn run_c17(ctx: &mut Ctx) {
    let mut r = ctx.rng(17);
    let (level, budget, shard, nshards) = (ctx.level, ctx.budget, ctx.shard, ctx.nshards);
    let rep = &mut ctx.rep;
    rep.exhaustive = false;
    rep.note("enumerated completely: all strings up to the stated length over the two structural alphabets; longer strings are sampled");
    let maxlen = match level {
        0 => 3,
        1 => 6,
        _ => 8,
    };
    let a = C17_ALPHABET.len() as u64;
    let mut stats = (0u64, 0u64, 0u64, 0u64);
    let mut s = String::with_capacity(32);
    let mut idx = 0u64;
    for len in 0..=maxlen {
        for v in 0..a.pow(len as u32) {
            idx += 1;
            if idx % nshards != shard {
                continue;
            }
            s.clear();
            let mut x = v;
            for _ in 0..len {
                s.push(C17_ALPHABET[(x % a) as usize]);
                x /= a;
            }
            let before = stats.0 + stats.1;
            c17_one(rep, &s, &mut stats);
            if stats.0 + stats.1 > before {
                rep.distinct_enumerated(); // yielded at least one link or attribute
            }
            if idx % 50_021 == 0 {
                rep.sample(|| format!("{:?}", s));
            }
        }
    }
    // attribute-position strings: the same alphabet placed where values live
    let inner_max = match level {
        0 => 2,
        1 => 4,
        _ => 6,
    };
    for len in 0..=inner_max {
        for v in 0..a.pow(len as u32) {
            idx += 1;
            if idx % nshards != shard {
                continue;
            }
            let mut inner = String::new();
            let mut x = v;
            for _ in 0..len {
                inner.push(C17_ALPHABET[(x % a) as usize]);
                x /= a;
            }
            let doc = format!("<a>;k={}", inner);
            c17_one(rep, &doc, &mut stats);
            let doc = format!("</x>;rt=\"t\";k=\"{}", inner);
            c17_one(rep, &doc, &mut stats);
        }
    }
    // a second exhaustive walk whose alphabet has several kinds of white space (ASCII and not)
    {
        let ws_alpha: [char; 10] = ['<', '>', ',', ';', '"', ' ', '\u{a0}', '\u{3000}', 'a', '\t'];
        let ws_max = match level {
            0 => 2,
            1 => 5,
            _ => 6,
        };
        let b = ws_alpha.len() as u64;
        for len in 0..=ws_max {
            for v in 0..b.pow(len as u32) {
                idx += 1;
                if idx % nshards != shard {
                    continue;
                }
                s.clear();
                let mut x = v;
                for _ in 0..len {
                    s.push(ws_alpha[(x % b) as usize]);
                    x /= b;
                }
                let before = stats.0 + stats.1;
                c17_one(rep, &s, &mut stats);
                if stats.0 + stats.1 > before {
                    rep.distinct_enumerated();
                }
            }
        }
        // white-space runs in front of links, at the start and after a separator
        for ws in ["\u{a0}", "\u{3000}", " \u{85}", "\r\n\u{2028}", "\u{2003}\u{2003}", "\t\u{a0} ", "\u{feff}", "\u{b}\u{c}"] {
            for doc in [format!("{}</a>", ws), format!("</a>;rt=\"x\",{}</b>", ws), format!("</a>,{}</b>;k=v,{}</c>", ws, ws), format!("</a>;k={}v{}", ws, ws), format!("</a>;{}k{}={}\"q\"{}", ws, ws, ws, ws)] {
                c17_one(rep, &doc, &mut stats);
            }
        }
    }
    // a third exhaustive walk, inside a quoted value, over line breaks / tabs / escapes
    {
        let q_alpha: [char; 8] = ['"', '\r', '\n', ' ', '\t', 'a', '\\', ';'];
        let q_max = match level {
            0 => 3,
            1 => 5,
            _ => 6,
        };
        let b = q_alpha.len() as u64;
        let mut inner = String::new();
        for len in 0..=q_max {
            for v in 0..b.pow(len as u32) {
                idx += 1;
                if idx % nshards != shard {
                    continue;
                }
                inner.clear();
                let mut x = v;
                for _ in 0..len {
                    inner.push(q_alpha[(x % b) as usize]);
                    x /= b;
                }
                let before = stats.2;
                c17_one(rep, &format!("</x>;title=\"{}\"", inner), &mut stats);
                c17_one(rep, &format!("</x>;title=\"{}", inner), &mut stats);
                if stats.2 > before {
                    rep.distinct_enumerated();
                }
                rep.count("quoted_value_walk_strings");
            }
        }
    }
    // random longer strings over a wider alphabet
    let wide: Vec<char> = C17_ALPHABET.iter().copied().chain(['😁', '\n', '\r', '\t', 'Z', '0', '/', '*', '\u{7ff}', '\u{800}', '\u{a0}', '\u{3000}', '\u{85}', '\u{2028}', '\u{2003}', '\u{feff}', '\u{b}', '\u{c}']).chain(lookalikes()).collect();
    for _ in 0..budget {
        let len = r.usize_below(60);
        let mut t = String::new();
        for _ in 0..len {
            t.push(*r.pick(&wide));
        }
        c17_one(rep, &t, &mut stats);
        rep.distinct(fnv(t.as_bytes()));
    }
    // random text built from characters AND multi-character dictionary sequences, placed where values live
    for i in 0..budget {
        let n = r.usize_below(14);
        let mut inner = String::new();
        for _ in 0..n {
            if r.chance(1, 4) {
                inner.push_str(*r.pick(DICTIONARY));
            } else {
                inner.push(*r.pick(&wide));
            }
        }
        let doc = match i % 4 {
            0 => format!("</x>;title=\"{}\"", inner),
            1 => format!("</x>;title=\"{}\";rt=\"y\",</z>;k=\"{}", inner, inner),
            2 => format!("</x>;k={}", inner),
            _ => format!("<{}>;a=\"{}\";b", inner, inner),
        };
        c17_one(rep, &doc, &mut stats);
        rep.distinct(fnv(doc.as_bytes()));
        rep.count("dictionary_strings");
    }
    // long inputs: depth of any kind (recursion per escape, per attribute, per link ...) must not be
    // bounded by the stack.  One structural unit repeated 200 000 times (2 000 000 at the thorough level)
    if shard == 0 && level > 0 {
        let reps = if level >= 2 { 2_000_000 } else { 200_000 };
        let units: [(&str, &str, &str); 12] = [
            ("</x>;title=\"", "\\\"", "\""),   // quoted-pairs inside one quoted value
            ("</x>;title=\"", "\\\\", "\""),
            ("</x>;title=\"", "\\", ""),
            ("</x>;title=\"", "a", ""),           // an unterminated long value
            ("</x>", ";a=b", ""),                  // attributes
            ("</x>", ";a", ""),
            ("", "</x>,", "</y>"),                 // links
            ("", "<", ""),
            ("</x>;k=", "\"\"", ""),
            ("</x>;k=", "=", ""),
            ("", ",", ""),
            ("</x>;t=\"", "\\a\"\"", "\""),
        ];
        for (pre, unit, post) in units {
            let mut doc = String::with_capacity(pre.len() + unit.len() * reps + post.len());
            doc.push_str(pre);
            for _ in 0..reps {
                doc.push_str(unit);
            }
            doc.push_str(post);
            set_case_str(&format!("C17 long document: {:?} + {:?} x {} + {:?}", pre, unit, reps, post));
            c17_one(rep, &doc, &mut stats);
            rep.count("long_documents");
            rep.distinct(fnv(unit.as_bytes()) ^ 0x10D0C);
        }
    }
    // every prefix (on char boundaries) of well-formed documents
    let ndocs = if level == 0 { 1 } else { (budget / 20).max(5) };
    for _ in 0..ndocs {
        let doc = gen_doc(&mut r, 1);
        let mut sink = PlainSink::new();
        let _ = write_doc(&doc, r.bool(), &mut sink);
        let text = sink.out;
        for (k, (i, _)) in text.char_indices().enumerate() {
            if level == 0 && k % 4 != 0 {
                continue;
            }
            c17_one(rep, &text[..i], &mut stats);
        }
        c17_one(rep, &text, &mut stats);
        rep.count("wellformed_documents_prefixed");
    }
    rep.add("links_yielded", stats.0);
    rep.add("attributes_yielded", stats.1);
    rep.add("values_unquoted_both_ways", stats.2);
    rep.add("errors_reported", stats.3);
    // distinct non-trivial: count of exhaustively enumerated strings that yielded at least one link is
    // not tracked per string; use evaluations of the random family plus structural classes
    rep.distinct(stats.0 ^ 0x1111);
    rep.distinct(stats.1 ^ 0x2222);
    rep.floor("links_yielded", 10);
    rep.floor("attributes_yielded", 10);
    rep.floor("values_unquoted_both_ways", 10);
    rep.floor("errors_reported", 5);
}

// ------------------------------------------------------------------------------------------
// C18

fn c18_doc(rep: &mut Report, doc: &Doc, stats: &mut (u64, u64), kstep: usize) {
    let nattrs: usize = doc.iter().map(|l| l.attrs.len()).sum();
    for newlines in [false, true] {
        // cycles through the three styles from one (document, newline) run to the next
        let style = STYLE_SHIFT.with(|c| {
            let v = c.get();
            c.set((v + 1) % 3);
            v
        });
        let _ = nattrs;
        FINISH_STYLE.with(|c| c.set(style));
        rep.bucket(&format!("per_link_finish_style_{}", ["always", "never", "alternating"][style as usize]));
        // fault-free run
        set_case_str(&format!("C18 {:?} nl={}", doc, newlines));
        let mut clean = FaultSink::new(FailMode::Never);
        let res = guard(|| write_doc(doc, newlines, &mut clean));
        let wit0 = format!("doc {} newlines={}", describe(doc), newlines);
        rep.eval();
        match res {
            Err(p) => {
                rep.violation(&format!("write-{}", p.sig()), p.text(), wit0);
                continue;
            }
            Ok((per_link, fin)) => {
                if !fin || per_link.iter().any(|x| !x.1) {
                    rep.violation("error-without-fault", "the writer reported an error although the sink never failed".into(), wit0);
                    continue;
                }
            }
        }
        let n = clean.log.len();
        let reference = clean.content.clone();
        if reference.is_empty() && !doc.is_empty() {
            rep.violation("empty-output", "fault-free output is empty".into(), wit0);
            continue;
        }
        rep.count("fault_free_runs");
        stats.0 += n as u64;
        for k in (0..n).step_by(kstep) {
            for mode in [FailMode::Once(k), FailMode::From(k)] {
                rep.eval();
                stats.1 += 1;
                let mut sink = FaultSink::new(mode);
                let res = guard(|| write_doc(doc, newlines, &mut sink));
                let wit = || format!("doc {} newlines={} fault={:?} (call {} of {} is {:?})", describe(doc), newlines, mode, k, n, clean.log[k].0);
                let (per_link, fin) = match res {
                    Err(p) => {
                        rep.violation(&format!("write-{}", p.sig()), p.text(), wit());
                        continue;
                    }
                    Ok(x) => x,
                };
                let what = match clean.log[k].0.as_str() {
                    "," => "separator",
                    "\n\r" => "newline",
                    "<" | ">" => "bracket",
                    ";" | "=" => "attr-punct",
                    "\"" => "quote",
                    "\\" => "escape",
                    _ => "text",
                };
                // 1. no accepted write after the failed call
                if let Some((i, (txt, _))) = sink.log.iter().enumerate().find(|(i, (_, acc))| *i > k && *acc) {
                    rep.violation(&format!("write-after-failure:{}", what), format!("call {} ({:?}) failed, yet call {} ({:?}) was written afterwards; sink holds {:?}", k, clean.log[k].0, i, txt, sink.content), wit());
                    continue;
                }
                // 2. final result is an error
                if fin {
                    rep.violation(&format!("finish-ok-after-failure:{}", what), format!("call {} ({:?}) failed but LinkFormatWrite::finish() returned Ok", k, clean.log[k].0), wit());
                    continue;
                }
                // 3. every per-link finish after the fault is an error
                if let Some((li, _)) = per_link.iter().enumerate().find(|(_, (calls_then, ok))| *calls_then > k && *ok) {
                    rep.violation(&format!("attr-finish-ok-after-failure:{}", what), format!("call {} failed but LinkAttributeWrite::finish() of link {} returned Ok", k, li), wit());
                    continue;
                }
                // 3b. finishes before the fault are not errors
                if per_link.iter().any(|(calls_then, ok)| *calls_then <= k && !*ok) {
                    rep.violation("finish-error-before-failure", "a link finished before the fault reported an error".into(), wit());
                    continue;
                }
                // 4. sink holds a prefix of the fault-free output
                if !reference.starts_with(&sink.content) {
                    rep.violation("sink-not-prefix", format!("sink {:?} is not a prefix of {:?}", sink.content, reference), wit());
                    continue;
                }
                rep.count("fault_plans_held");
                rep.bucket(&format!("fault_at_{}", what));
                let attempts_after = sink.log.len().saturating_sub(k + 1);
                if attempts_after > 0 {
                    rep.count("plans_with_write_attempts_after_failure");
                }
            }
        }
        rep.sample_every(20011, || format!("doc {} newlines={} -> {} sink calls, every one failed once and persistently", describe(doc), newlines, n));
    }
    FINISH_STYLE.with(|c| c.set(0));
}

thread_local! {
    static STYLE_SHIFT: std::cell::Cell<u8> = const { std::cell::Cell::new(0) };
}

pub fn run_c18(ctx: &mut Ctx) {
    let mut r = ctx.rng(18);
    let (budget, shard, level, ctx_nshards) = (ctx.budget, ctx.shard, ctx.level, ctx.nshards);
    let rep = &mut ctx.rep;
    let mut stats = (0u64, 0u64);
    if shard == 0 && level > 0 {
        // directed: two links so that the separator path is taken, every attribute method
        let doc = vec![
            Link { target: "/a".into(), attrs: vec![("rt".into(), AttrKind::Quoted("x\"y\\".into())), ("sz".into(), AttrKind::U32(77)), ("ct".into(), AttrKind::U16(40)), ("if".into(), AttrKind::Plain("plain".into())), ("t".into(), AttrKind::Plain("needs quoting".into()))] },
            Link { target: "/b".into(), attrs: vec![("registration-lifetime-seconds".into(), AttrKind::U32(4_000_000_000)), ("k01234567890123456789".into(), AttrKind::U32(7)), ("a-sixteen-bit-value-with-a-long-name".into(), AttrKind::U16(65535))] },
            Link { target: "".into(), attrs: vec![("k".into(), AttrKind::Plain("".into())), ("rel".into(), AttrKind::Plain("a".into())), ("rel".into(), AttrKind::Quoted("b".into()))] },
        ];
        // (two newline settings per call and three styles: three calls cover every combination)
        for _ in 0..3 {
            c18_doc(rep, &doc, &mut stats, 1);
        }
        // keys ending in '*' with RFC 8187 extended values (and near misses), through every writer method
        for key in ["title*", "rt*", "x*"] {
            for v in EXT_VALUES {
                let doc = vec![
                    Link { target: "/sensors/temp".into(), attrs: vec![("rt".into(), AttrKind::Plain("temperature".into())), (key.to_string(), AttrKind::Plain(v.to_string())), ("sz".into(), AttrKind::U32(12))] },
                    Link { target: "/sensors/light".into(), attrs: vec![(key.to_string(), AttrKind::Quoted(v.to_string())), ("if".into(), AttrKind::Quoted("sensor".into()))] },
                ];
                c18_doc(rep, &doc, &mut stats, 1);
                rep.distinct(fnv(describe(&doc).as_bytes()));
                rep.count("extended_value_documents");
            }
        }
        // targets and keys with characters the format itself cannot carry (the writer does not
        // validate them; whatever it writes for them, faults are reported all the same)
        for target in ["/a>b", ">", "a>>b>", "<>;,\"\\", "\n\r>", "x\u{e9}>\u{1f600}>"] {
            let doc = vec![
                Link { target: target.into(), attrs: vec![("ct".into(), AttrKind::U16(0)), ("t".into(), AttrKind::Quoted(target.into()))] },
                Link { target: format!("{}{}", target, target), attrs: vec![("p".into(), AttrKind::Plain(target.into()))] },
            ];
            for _ in 0..3 {
                c18_doc(rep, &doc, &mut stats, 1);
            }
            rep.distinct(fnv(describe(&doc).as_bytes()));
            rep.count("unrepresentable_target_documents");
        }
        rep.distinct(fnv(describe(&doc).as_bytes()));
    }
    // numeric attributes: registry numbers and boundaries under the keys that usually carry them,
    // behind another attribute so that every earlier sink call can be the failing one
    if level > 0 {
        let mut di = 0u64;
        for key in ["ct", "sz", "lt", "rt", "obs", "title", "k"] {
            for n in NUMBERS {
                di += 1;
                if di % ctx_nshards != shard {
                    continue;
                }
                let doc = vec![
                    Link { target: "/.well-known/core".into(), attrs: vec![(key.to_string(), AttrKind::U16(*n as u16)), (key.to_string(), AttrKind::U32(*n))] },
                    Link { target: "/n".into(), attrs: vec![("rt".into(), AttrKind::Plain("x".into())), (key.to_string(), AttrKind::U32(*n)), (key.to_string(), AttrKind::U16(*n as u16))] },
                ];
                rep.distinct(fnv(describe(&doc).as_bytes()));
                c18_doc(rep, &doc, &mut stats, 1);
                rep.count("numeric_attribute_documents");
            }
        }
    }
    // long texts in every text-carrying position (target, key, plain value, quoted value): a writer that
    // cuts its output into pieces has boundaries at some multiple of some size
    if level > 0 {
        let mut di = 0u64;
        for len in [1023usize, 1024, 1025, 2047, 2048, 2049, 2500, 3600, 4097, 9000] {
            for (ui, unit) in ["t", "\u{e9}", "\u{1f600}x"].iter().enumerate() {
                di += 1;
                if di % ctx_nshards != shard {
                    continue;
                }
                let mut text = String::new();
                while text.len() < len {
                    text.push_str(unit);
                }
                let key: String = "k".repeat(len.min(3000));
                let doc = match ui {
                    0 => vec![Link { target: text.clone(), attrs: vec![("rt".into(), AttrKind::Plain("a".into()))] }, Link { target: "/b".into(), attrs: vec![(key, AttrKind::U16(1))] }],
                    1 => vec![Link { target: "/a".into(), attrs: vec![("title".into(), AttrKind::Quoted(text.clone())), ("n".into(), AttrKind::U32(2))] }, Link { target: text.clone(), attrs: vec![] }],
                    _ => vec![Link { target: text.clone(), attrs: vec![("p".into(), AttrKind::Plain(text.clone()))] }, Link { target: "/z".into(), attrs: vec![("q".into(), AttrKind::Quoted("end".into()))] }],
                };
                rep.distinct(fnv(describe(&doc).as_bytes()));
                c18_doc(rep, &doc, &mut stats, 1);
                rep.count("long_text_documents");
            }
        }
    }
    // quoted values of EVERY length up to 200 bytes (a writer that batches its output has internal
    // boundaries somewhere), plain and with escapes / multi-byte characters at varying offsets
    if level > 0 {
        let lens: Vec<usize> = (0..=200).collect();
        for (li, &len) in lens.iter().enumerate() {
            if (li as u64) % ctx_nshards != shard {
                continue;
            }
            for variant in 0..3 {
                let mut v = String::new();
                let mut k = 0usize;
                while v.len() < len {
                    let c = match variant {
                        0 => 'x',
                        1 => {
                            if k % 7 == 3 {
                                '"'
                            } else if k % 11 == 5 {
                                '\\'
                            } else {
                                'y'
                            }
                        }
                        _ => {
                            if k % 5 == 2 {
                                'é'
                            } else {
                                'z'
                            }
                        }
                    };
                    if v.len() + c.len_utf8() > len {
                        v.push('p');
                    } else {
                        v.push(c);
                    }
                    k += 1;
                }
                let doc = vec![Link { target: "/l".into(), attrs: vec![("title".into(), AttrKind::Quoted(v.clone())), ("rt".into(), AttrKind::Plain("t t".into()))] }, Link { target: "/m".into(), attrs: vec![("d".into(), AttrKind::Plain(v))] }];
                rep.distinct(fnv(describe(&doc).as_bytes()));
                c18_doc(rep, &doc, &mut stats, 1);
                rep.count("long_value_documents");
            }
        }
    }
    // long documents: the separator logic must not depend on how many links went before (255, 256,
    // 257 ... links); fault positions are sampled with a stride here, the cost being quadratic otherwise
    if level > 0 {
        for (n, stride) in [(255usize, 41usize), (256, 43), (257, 37), (300, 53), (520, 97), (65, 7)] {
            let doc: Vec<Link> = (0..n).map(|i| Link { target: format!("/n{}", i), attrs: if i % 64 == 63 { vec![("rt".into(), AttrKind::Plain("t".into()))] } else { vec![] } }).collect();
            rep.distinct(fnv(describe(&doc).as_bytes()) ^ n as u64);
            c18_doc(rep, &doc, &mut stats, stride);
            rep.count("many_link_documents");
        }
    }
    for _ in 0..budget {
        let mut doc = gen_doc(&mut r, 2);
        if level == 0 {
            // interpreter-sized: two links, at most one short attribute each (fault positions still enumerated completely)
            doc.truncate(2);
            for l in doc.iter_mut() {
                l.attrs.truncate(1);
                l.target = l.target.chars().take(3).collect();
                for a in l.attrs.iter_mut() {
                    if let AttrKind::Plain(v) | AttrKind::Quoted(v) = &mut a.1 {
                        *v = v.chars().take(3).collect();
                    }
                }
            }
        }
        rep.distinct(fnv(describe(&doc).as_bytes()));
        c18_doc(rep, &doc, &mut stats, 1);
    }
    rep.add("sink_calls_in_fault_free_runs", stats.0);
    rep.add("fault_plans", stats.1);
    rep.exhaustive = false;
    rep.note("per document, every sink call index x {fail once, fail from there on} x newline on/off is enumerated completely");
    rep.floor("fault_plans_held", 1);
    rep.floor("fault_at_separator", 1);
    rep.floor("fault_at_text", 1);
    rep.floor("fault_at_bracket", 1);
    rep.floor("per_link_finish_style_never", 1);
    rep.floor("per_link_finish_style_always", 1);
}
