//! C20 — cached block-transfer state lives exactly as long as configured.
//!
//! Primary mode: virtual time (the binary interposes clock_gettime, see vclock.rs), so both
//! directions are decidable without any wall-clock sensitivity: alive while idle <= expiry,
//! never used once idle > expiry, and physically reclaimed on the next handler call.
//! Secondary mode: real time with expiry 20-60 ms and sleeps of >= 4x, asserting only the
//! must-be-expired direction.

use crate::alloc_count;
use crate::blockclient::*;
use crate::ctx::Ctx;
use crate::panicwatch::set_case_str;
use crate::report::Report;
use crate::rng::{mix, Rng};
use crate::vclock;
use coap_lite::{CoapRequest, Packet};
use std::time::Duration;

const EPS: Duration = Duration::from_millis(2);

struct Clock {
    virt: bool,
}

impl Clock {
    fn advance(&self, d: Duration) {
        if self.virt {
            vclock::advance(d);
        } else {
            std::thread::sleep(d);
        }
    }
}

fn small_app() -> impl FnMut(&CoapRequest<CEp>) -> AppReply {
    |_q| AppReply::content(b"ok".to_vec())
}

struct Dl {
    ep: u32,
    path: Vec<String>,
    body: Vec<u8>,
    szx: u8,
    next: u32,
}

fn path_refs(p: &[String]) -> Vec<&str> {
    p.iter().map(|s| s.as_str()).collect()
}

thread_local! {
    static DL_STARTS: std::cell::Cell<u64> = const { std::cell::Cell::new(0) };
    /// scenarios that count allocations start their downloads without a crossing request (its cache
    /// entry would add bookkeeping allocations of buffer-like size to the count)
    static PLAIN_STARTS: std::cell::Cell<bool> = const { std::cell::Cell::new(false) };
}

/// start a download: first request with early negotiation, reply must be fragmented
fn dl_start(server: &mut Server, ep: u32, path: Vec<String>, body: Vec<u8>, szx: u8, mid: &mut u16) -> Result<Dl, String> {
    let mut r = ReqSpec::new(1, &path_refs(&path));
    *mid = mid.wrapping_add(1);
    r.mid = *mid;
    r.block2 = Some((0, false, szx));
    let b = body.clone();
    // the application's reply may say how long the REPRESENTATION stays fresh (Max-Age 0, 1, 60); that is
    // a matter between caches and clients, not the lifetime of the handler's transfer state
    let max_age: Option<Vec<u8>> = match DL_STARTS.with(|c| c.get()) % 4 {
        0 => Some(vec![]),
        1 => Some(vec![1]),
        2 => Some(vec![60]),
        _ => None,
    };
    let mut app = move |_q: &CoapRequest<CEp>| AppReply { code: 0x45, options: max_age.iter().map(|v| (14u16, v.clone())).collect(), payload: b.clone() };
    // every other download starts while another client's request is being taken in: that request
    // arrives between this one's intercept_request and intercept_response, carries the SAME message
    // id (ids are per client), another Block2 option, and is completed first
    let overlapped = PLAIN_STARTS.with(|p| !p.get())
        && DL_STARTS.with(|c| {
            let v = c.get();
            c.set(v + 1);
            v % 2 == 0
        });
    let ex = if overlapped {
        let mut o = ReqSpec::new(1, &["elsewhere"]);
        o.mid = r.mid;
        o.token = vec![0x77];
        o.block2 = Some((2, false, 0));
        let mut other_app = |_q: &CoapRequest<CEp>| AppReply::content(vec![0x6f; 300]);
        let mine = server.take_in(&r.bytes(), ep);
        let theirs = server.take_in(&o.bytes(), ep + 5000);
        // half of the time the other request is answered first, otherwise it is still pending
        // when this download's first reply goes out
        if DL_STARTS.with(|c| c.get()) % 4 == 1 {
            let _ = server.answer(theirs, &mut other_app);
            server.answer(mine, &mut app)
        } else {
            let ex = server.answer(mine, &mut app);
            let _ = server.answer(theirs, &mut other_app);
            ex
        }
    } else {
        server.exchange(&r.bytes(), ep, &mut app)
    };
    let blk = ex.block_of(coap_lite::CoapOption::Block2);
    match blk {
        Some(bv) if bv.more && ex.app_called => Ok(Dl { ep, path, body, szx, next: 1 }),
        _ => Err(format!("download did not start block-wise: {}", ex.summary())),
    }
}

/// request the next block; Ok(true) = served from the handler's cache with the right bytes,
/// Ok(false) = the request reached the application
fn dl_next(server: &mut Server, d: &mut Dl, mid: &mut u16) -> Result<bool, String> {
    let mut r = ReqSpec::new(1, &path_refs(&d.path));
    *mid = mid.wrapping_add(1);
    r.mid = *mid;
    r.block2 = Some((d.next, false, d.szx));
    let mut app = small_app();
    let ex = server.exchange(&r.bytes(), d.ep, &mut app);
    if let Step::Panic(p) = &ex.intercept_request {
        return Err(p.text());
    }
    if ex.app_called {
        return Ok(false);
    }
    let s = szx_size(d.szx);
    let lo = d.next as usize * s;
    let hi = (lo + s).min(d.body.len());
    match &ex.reply {
        Some(rp) if lo < d.body.len() && rp.payload == d.body[lo..hi] => {
            d.next += 1;
            Ok(true)
        }
        _ => Err(format!("cached block {} wrong: {}", d.next, ex.summary())),
    }
}

struct Ul {
    ep: u32,
    path: Vec<String>,
    body: Vec<u8>,
    szx: u8,
    next: usize,
}

/// send the next non-final block; Ok(()) when answered 2.31
fn ul_block(server: &mut Server, u: &mut Ul, mid: &mut u16) -> Result<(), String> {
    let s = szx_size(u.szx);
    let mut r = ReqSpec::new(3, &path_refs(&u.path));
    *mid = mid.wrapping_add(1);
    r.mid = *mid;
    r.block1 = Some((u.next as u32, true, u.szx));
    r.payload = u.body[u.next * s..(u.next + 1) * s].to_vec();
    let mut app = small_app();
    let ex = server.exchange(&r.bytes(), u.ep, &mut app);
    if ex.reply_code() == Some(0x5f) && !ex.app_called {
        u.next += 1;
        Ok(())
    } else {
        Err(format!("upload block {} not continued: {}", u.next, ex.summary()))
    }
}

/// (re)send block 0 of the upload, so that a fresh buffer of one block exists
fn ul_block_again(server: &mut Server, u: &mut Ul, mid: &mut u16) -> Result<(), String> {
    u.next = 0;
    ul_block(server, u, mid)
}

/// send the final block; returns what the application received (None: handler refused)
fn ul_finish(server: &mut Server, u: &mut Ul, mid: &mut u16) -> Result<Option<Vec<u8>>, String> {
    let s = szx_size(u.szx);
    let mut r = ReqSpec::new(3, &path_refs(&u.path));
    *mid = mid.wrapping_add(1);
    r.mid = *mid;
    r.block1 = Some((u.next as u32, false, u.szx));
    r.payload = u.body[u.next * s..].to_vec();
    let mut app = small_app();
    let ex = server.exchange(&r.bytes(), u.ep, &mut app);
    if let Step::Panic(p) = &ex.intercept_request {
        return Err(p.text());
    }
    Ok(ex.app_saw_payload)
}

fn other_request(server: &mut Server, i: u32, mid: &mut u16) {
    let p = format!("o{}", i % 977);
    let mut r = ReqSpec::new(1, &["other", &p]);
    *mid = mid.wrapping_add(1);
    r.mid = *mid;
    let mut app = small_app();
    let _ = server.exchange(&r.bytes(), 1000 + i % 7, &mut app);
}

/// a request on a key that is easily confused with one of the observed keys (same endpoint and a
/// path that joins / splits / pads / re-cases to the same text, the same path from another endpoint
/// or with another method); it leaves every kind of state there
fn neighbour_request(server: &mut Server, i: u32, observed: &[(u32, Vec<String>, u8)]) {
    let (ep, path, code) = &observed[i as usize % observed.len()];
    crate::blocktransfer::noise_request(server, 3 * (i / observed.len() as u32 + 1), *ep, path, *code);
}

/// a request on another key by the endpoint that owns the observed transfers, which the handler
/// has to refuse (a Block1 block far beyond anything buffered, or one whose options alone exceed
/// the budget): a refusal there is no reason to touch the state of the observed keys
fn refused_request(server: &mut Server, ep: u32, i: u32, mid: &mut u16) {
    let seg = format!("r{}", i % 3);
    let mut r = ReqSpec::new(if i % 2 == 0 { 3 } else { 2 }, &["refused", &seg]);
    *mid = mid.wrapping_add(1);
    r.mid = *mid;
    r.block1 = Some((4000 + i % 50, i % 4 != 3, (i % 3) as u8));
    r.payload = vec![0x66; 16 << (i % 3)];
    let mut app = small_app();
    let _ = server.exchange(&r.bytes(), ep, &mut app);
}

fn scenario_retention(rep: &mut Report, r: &mut Rng, clock: &Clock, d: Duration, n_other: u32) {
    rep.eval();
    let witness = format!("retention: expiry {:?}, {} intervening requests on other keys, virtual_time={}", d, n_other, clock.virt);
    set_case_str(&witness);
    let mut mid = 0u16;
    let mut server = Server::new(120, d);
    let body = body_bytes(r.next_u64(), 64 * 6 + 10);
    let mut dl = match dl_start(&mut server, 1, vec!["dl".into()], body, 2, &mut mid) {
        Ok(x) => x,
        Err(e) => {
            rep.violation("retention-setup", e, witness);
            return;
        }
    };
    // 1 block at setup + 3 rounds, then a 7-byte final block
    let mut ul = Ul { ep: 1, path: vec!["ul".into()], body: body_bytes(r.next_u64(), 32 * 4 + 7), szx: 1, next: 0 };
    if let Err(e) = ul_block(&mut server, &mut ul, &mut mid) {
        rep.violation("retention-setup", e, witness);
        return;
    }
    // three rounds: each waits just under the expiry since the last touch, with other traffic
    for round in 0..3 {
        let slice = (d - EPS) / (n_other + 1);
        for i in 0..n_other {
            clock.advance(slice);
            other_request(&mut server, i + round * 10_000, &mut mid);
            if i % 5 == 0 {
                refused_request(&mut server, 1, i / 5 + round, &mut mid);
            }
            if i % 2 == 1 {
                neighbour_request(&mut server, i / 2 + round * 500, &[(1, vec!["dl".into()], 1), (1, vec!["ul".into()], 3)]);
            }
        }
        clock.advance(slice);
        match dl_next(&mut server, &mut dl, &mut mid) {
            Ok(true) => {}
            Ok(false) => {
                rep.violation("live-download-state-dropped", format!("round {}: follow-up block reached the application although idle time was below the expiry", round), witness);
                return;
            }
            Err(e) => {
                rep.violation("live-download-state-dropped", format!("round {}: {}", round, e), witness);
                return;
            }
        }
        if let Err(e) = ul_block(&mut server, &mut ul, &mut mid) {
            rep.violation("live-upload-state-dropped", format!("round {}: {}", round, e), witness);
            return;
        }
    }
    match ul_finish(&mut server, &mut ul, &mut mid) {
        Ok(Some(got)) if got == ul.body => {}
        Ok(got) => {
            rep.violation("live-upload-state-dropped", format!("upload completed with {:?} bytes instead of the full {}-byte body", got.map(|g| g.len()), ul.body.len()), witness);
            return;
        }
        Err(e) => {
            rep.violation("live-upload-state-dropped", e, witness);
            return;
        }
    }
    rep.count("retention_histories_held");
    rep.add("intervening_requests", 3 * n_other as u64);
    rep.distinct(mix(&[1, d.as_millis() as u64, n_other as u64]));
    rep.sample_every(97, || witness.clone());
}

fn scenario_expiry(rep: &mut Report, r: &mut Rng, clock: &Clock, d: Duration, wait: Duration, touches: u32, traffic: u32) {
    rep.eval();
    let witness = format!("expiry: expiry {:?}, {} refreshing touches, then idle {:?} with {} requests on OTHER keys spread over the idle period, virtual_time={}", d, touches, wait, traffic, clock.virt);
    set_case_str(&witness);
    let mut mid = 0u16;
    let mut server = Server::new(120, d);
    let body = body_bytes(r.next_u64(), 64 * 8 + 3);
    let mut dl = match dl_start(&mut server, 2, vec!["dl".into(), "x".into()], body, 2, &mut mid) {
        Ok(x) => x,
        Err(e) => {
            rep.violation("expiry-setup", e, witness);
            return;
        }
    };
    let nonfinal = 1 + if clock.virt { touches as usize } else { 0 };
    let mut ul = Ul { ep: 2, path: vec!["ul".into()], body: body_bytes(r.next_u64(), 32 * nonfinal + 9), szx: 1, next: 0 };
    if let Err(e) = ul_block(&mut server, &mut ul, &mut mid) {
        rep.violation("expiry-setup", e, witness);
        return;
    }
    if clock.virt {
        // touches keep it alive (each refreshes the idle timer) ...
        for t in 0..touches {
            clock.advance(d - EPS);
            if dl_next(&mut server, &mut dl, &mut mid) != Ok(true) {
                rep.violation("live-download-state-dropped", format!("touch {}: cached block not served although idle time was below the expiry", t), witness);
                return;
            }
            if let Err(e) = ul_block(&mut server, &mut ul, &mut mid) {
                rep.violation("live-upload-state-dropped", format!("touch {}: {}", t, e), witness);
                return;
            }
        }
    }
    // ... then it idles for longer than the expiry, while other keys may stay busy (every gap
    // between their requests shorter than the expiry)
    if traffic == 0 {
        clock.advance(wait);
    } else {
        let slice = wait / (traffic + 1);
        for i in 0..traffic {
            clock.advance(slice);
            other_request(&mut server, i, &mut mid);
            if i % 2 == 0 {
                neighbour_request(&mut server, i / 2, &[(2, vec!["dl".into(), "x".into()], 1), (2, vec!["ul".into()], 3)]);
            }
        }
        clock.advance(wait - slice * traffic);
    }
    match dl_next(&mut server, &mut dl, &mut mid) {
        Ok(false) => {}
        Ok(true) => {
            rep.violation("expired-download-state-used", format!("a block was served from the cache after {:?} idle with expiry {:?}", wait, d), witness);
            return;
        }
        Err(e) => {
            rep.violation("expired-download-state-used", e, witness);
            return;
        }
    }
    let offset = ul.next * szx_size(ul.szx);
    match ul_finish(&mut server, &mut ul, &mut mid) {
        Err(e) => {
            rep.violation("expired-upload-panic", e, witness);
            return;
        }
        Ok(None) => rep.count("expired_upload_refused"),
        Ok(Some(got)) => {
            // must have been built on an empty buffer: none of the old prefix survives
            let old = &ul.body[..offset];
            let overlap = got.iter().zip(old.iter()).filter(|(a, b)| a == b).count();
            if got.len() >= offset && overlap * 2 > offset {
                rep.violation("expired-upload-state-used", format!("after {:?} idle (expiry {:?}) the delivered body still starts with {} of the {} bytes buffered before", wait, d, overlap, offset), witness);
                return;
            }
            rep.count("expired_upload_restarted_from_empty_buffer");
        }
    }
    rep.count("expiry_histories_held");
    rep.distinct(mix(&[2, d.as_millis() as u64, wait.as_millis() as u64, touches as u64]));
    rep.sample_every(89, || witness.clone());
}


/// The application itself is slow: the expiry elapses BETWEEN intercept_request and
/// intercept_response of one exchange on the key.  State that has been idle for longer than the
/// expiry must not come back to life afterwards.
fn scenario_slow_application(rep: &mut Report, r: &mut Rng, clock: &Clock, d: Duration) {
    rep.eval();
    let witness = format!("slow application: expiry {:?}; cached download and buffered upload, then a plain request on the same key whose application callback takes expiry+2ms, then the follow-up block; virtual_time={}", d, clock.virt);
    set_case_str(&witness);
    let mut mid = 0u16;
    let mut server = Server::new(120, d);
    let body = body_bytes(r.next_u64(), 64 * 5 + 3);
    let mut dl = match dl_start(&mut server, 3, vec!["slow".into()], body, 2, &mut mid) {
        Ok(x) => x,
        Err(e) => {
            rep.violation("slow-app-setup", e, witness);
            return;
        }
    };
    let mut ul = Ul { ep: 3, path: vec!["slowup".into()], body: body_bytes(r.next_u64(), 32 + 9), szx: 1, next: 0 };
    if let Err(e) = ul_block(&mut server, &mut ul, &mut mid) {
        rep.violation("slow-app-setup", e, witness);
        return;
    }
    // a plain request on the key reaches the application, which dawdles past the expiry; the
    // follow-up block comes right afterwards (nothing else touches the handler in between)
    let mut slow_exchange = |server: &mut Server, code: u8, path: &str, mid: &mut u16| -> bool {
        let mut q = ReqSpec::new(code, &[path]);
        *mid = mid.wrapping_add(1);
        q.mid = *mid;
        let mut slow_app = |_q: &CoapRequest<CEp>| {
            clock.advance(d + EPS);
            AppReply::content(b"ok".to_vec())
        };
        server.exchange(&q.bytes(), 3, &mut slow_app).app_called
    };
    if !slow_exchange(&mut server, 1, "slow", &mut mid) {
        rep.violation("slow-app-setup", "plain GET did not reach the application".into(), witness);
        return;
    }
    match dl_next(&mut server, &mut dl, &mut mid) {
        Ok(false) => {}
        Ok(true) => {
            rep.violation("expired-download-state-used", format!("a block was served from a cache entry that had been idle for longer than {:?} (the expiry elapsed inside the application callback of an earlier exchange on the key)", d), witness);
            return;
        }
        Err(e) => {
            rep.violation("expired-download-state-used", e, witness);
            return;
        }
    }
    // the upload buffer has been idle since before the first slow exchange; refresh it first so that
    // only the second slow exchange separates it from its continuation
    if let Err(e) = ul_block_again(&mut server, &mut ul, &mut mid) {
        rep.violation("slow-app-setup", e, witness);
        return;
    }
    if !slow_exchange(&mut server, 3, "slowup", &mut mid) {
        rep.violation("slow-app-setup", "plain PUT did not reach the application".into(), witness);
        return;
    }
    let offset = ul.next * szx_size(ul.szx);
    match ul_finish(&mut server, &mut ul, &mut mid) {
        Err(e) => {
            rep.violation("expired-upload-panic", e, witness);
            return;
        }
        Ok(None) => rep.count("expired_upload_refused"),
        Ok(Some(got)) => {
            let old = &ul.body[..offset];
            let overlap = got.iter().zip(old.iter()).filter(|(a, b)| a == b).count();
            if got.len() >= offset && overlap * 2 > offset {
                rep.violation("expired-upload-state-used", format!("the delivered body starts with {} of the {} bytes buffered before the expiry elapsed inside an application callback", overlap, offset), witness);
                return;
            }
        }
    }
    rep.count("slow_application_histories_held");
    rep.distinct(mix(&[4, d.as_millis() as u64]));
}

/// One handler lives through many generations of abandoned uploads that expire: a fresh upload
/// must keep working (from an empty buffer) and the handler's memory must not creep up.
fn scenario_long_lived(rep: &mut Report, r: &mut Rng, clock: &Clock, d: Duration, generations: u32, per_generation: u32) {
    rep.eval();
    let witness = format!("long-lived handler: expiry {:?}, {} generations of {} abandoned 16 KiB uploads each, every generation idles past the expiry; virtual_time={}", d, generations, per_generation, clock.virt);
    set_case_str(&witness);
    let mut mid = 0u16;
    let mut server = Server::new(1200, d);
    let mut heap_after_first: Option<isize> = None;
    for g in 0..generations {
        for i in 0..per_generation {
            // an abandoned upload that made the server buffer 16 KiB: block 15 of 1024 bytes
            let mut q = ReqSpec::new(3, &["gen", &format!("{}", i)]);
            mid = mid.wrapping_add(1);
            q.mid = mid;
            q.block1 = Some((15, true, 6));
            q.payload = vec![0x61; 1024];
            let mut app = small_app();
            let ex = server.exchange(&q.bytes(), 300 + i, &mut app);
            if ex.reply_code() != Some(0x5f) {
                rep.violation("long-lived-handler-refuses-uploads", format!("generation {}: abandoned-upload block refused: {}", g, ex.summary()), witness);
                return;
            }
        }
        clock.advance(d + EPS);
        // a fresh, complete two-block upload on its own key must be delivered intact
        let body = body_bytes(r.next_u64(), 1024 + 100);
        let mut u = Ul { ep: 900, path: vec!["fresh".into()], body, szx: 6, next: 0 };
        if let Err(e) = ul_block(&mut server, &mut u, &mut mid) {
            rep.violation("long-lived-handler-refuses-uploads", format!("generation {}: after the abandoned uploads expired, a fresh upload is refused: {}", g, e), witness);
            return;
        }
        match ul_finish(&mut server, &mut u, &mut mid) {
            Ok(Some(got)) if got == u.body => {}
            other => {
                rep.violation("long-lived-handler-refuses-uploads", format!("generation {}: fresh upload delivered {:?}", g, other.map(|o| o.map(|b| b.len()))), witness);
                return;
            }
        }
        let live = alloc_count::live();
        match heap_after_first {
            None => heap_after_first = Some(live),
            Some(first) => {
                // everything a generation buffered (per_generation x 16 KiB) has expired and been reclaimed
                if live > first + (per_generation as isize) * 16 * 1024 / 2 {
                    rep.violation("long-lived-handler-memory-creeps", format!("generation {}: live heap {} bytes, after the first generation it was {}", g, live, first), witness);
                    return;
                }
            }
        }
    }
    rep.count("long_lived_handler_histories_held");
    rep.add("expired_upload_bytes_cycled", generations as u64 * per_generation as u64 * 16384);
    rep.distinct(mix(&[5, d.as_millis() as u64, generations as u64, per_generation as u64]));
}

struct RestorePlain;
impl Drop for RestorePlain {
    fn drop(&mut self) {
        PLAIN_STARTS.with(|p| p.set(false));
    }
}

fn scenario_reclaim(rep: &mut Report, r: &mut Rng, clock: &Clock, d: Duration, n: u32, traffic: bool) {
    rep.eval();
    let witness = format!("reclamation: expiry {:?}, {} abandoned transfers, other keys busy meanwhile: {}, virtual_time={}", d, n, traffic, clock.virt);
    set_case_str(&witness);
    let mut mid = 0u16;
    PLAIN_STARTS.with(|p| p.set(true));
    let _restore = RestorePlain;
    let base_eps = live_endpoints();
    let base_big = alloc_count::big_live();
    let mut server = Server::new(1200, d);
    let mut buffered_total = 0usize;
    let mut keys: Vec<ReqSpec> = Vec::new();
    for i in 0..n {
        if i % 2 == 0 {
            // abandoned upload: four non-final blocks of 1024 bytes
            let mut u = Ul { ep: 100 + i, path: vec!["ab".into(), format!("{}", i)], body: body_bytes(r.next_u64(), 1024 * 5), szx: 6, next: 0 };
            for _ in 0..4 {
                if let Err(e) = ul_block(&mut server, &mut u, &mut mid) {
                    rep.violation("reclaim-setup", e, witness);
                    return;
                }
            }
            buffered_total += 4096;
            let mut k = ReqSpec::new(3, &path_refs(&u.path));
            k.mid = i as u16;
            keys.push(k);
        } else {
            // abandoned download: 8 KiB body cached after the first block
            match dl_start(&mut server, 100 + i, vec!["ab".into(), format!("{}", i)], body_bytes(r.next_u64(), 8192), 6, &mut mid) {
                Ok(_) => buffered_total += 8192,
                Err(e) => {
                    rep.violation("reclaim-setup", e, witness);
                    return;
                }
            }
            let mut k = ReqSpec::new(1, &["ab", &format!("{}", i)]);
            k.mid = i as u16;
            keys.push(k);
        }
    }
    let held = live_endpoints() - base_eps;
    if held != 2 * n as i64 {
        rep.note(&format!("endpoint instances held per cache entry is {} / {} entries (expected 2 each)", held, n));
    }
    let live_before = alloc_count::live();
    let big_held = alloc_count::big_live();
    if big_held.0 - base_big.0 < n as isize {
        rep.note("fewer large live allocations than abandoned transfers: the buffer accounting would be blind");
        rep.violation("reclaim-setup", format!("{} abandoned transfers but only {} large live allocations", n, big_held.0 - base_big.0), witness);
        return;
    }
    // idle past the expiry: nothing is purged until the handler is used again
    let mut busy_keys = 0i64;
    if traffic {
        // the handler stays in use for other keys (gaps of a third of the expiry); the abandoned
        // transfers themselves are never touched again
        for j in 0..6u32 {
            clock.advance(d / 3);
            other_request(&mut server, 7000 + j % 2, &mut mid);
        }
        busy_keys = 2;
    } else {
        clock.advance(d + EPS + d / 4);
    }
    let held_idle = live_endpoints() - base_eps;
    // one unrelated call - an ordinary request, or one that the handler refuses (its path alone is
    // longer than the budget): "the next use of the handler" either way
    let refused_probe = r.bool();
    if refused_probe {
        let long = "x".repeat(1300);
        let mut q = ReqSpec::new(1, &["refused", &long]);
        mid = mid.wrapping_add(1);
        q.mid = mid;
        let mut app = small_app();
        let _ = server.exchange(&q.bytes(), 4242, &mut app);
        rep.count("reclaim_probes_that_the_handler_refused");
    } else {
        other_request(&mut server, 424242, &mut mid);
    }
    let held_after = live_endpoints() - base_eps;
    let live_after = alloc_count::live();
    // exactly the one new entry remains (2 endpoint instances), plus the keys kept busy (a refused
    // request need not leave an entry of its own)
    if held_after != 2 + 2 * busy_keys && !(refused_probe && held_after == 2 * busy_keys) {
        rep.violation(
            "expired-entries-not-reclaimed",
            format!("{} abandoned transfers, idle past the expiry, one unrelated handler call: the handler still holds {} endpoint instances ({} cache entries) instead of {} (held {} before, {} while idle)", n, held_after, held_after / 2, 2 + 2 * busy_keys, held, held_idle),
            witness,
        );
        return;
    }
    let freed = live_before - live_after;
    let big_after = alloc_count::big_live();
    // every large buffer (>= 3500 bytes: upload buffers, cached bodies) the abandoned transfers
    // held must be gone; small bookkeeping of the one new entry is not counted
    // (the recency list of the cache keeps its capacity: one allocation that is not a buffer, so
    // the judgement is on how many large allocations disappeared, not on how many remain)
    if big_held.0 - big_after.0 < n as isize {
        rep.violation(
            "expired-buffers-not-freed",
            format!("{} large allocations ({} bytes) are still live after reclamation (held {} / {} bytes before); live heap fell by {} of {} buffered bytes", big_after.0 - base_big.0, big_after.1 - base_big.1, big_held.0 - base_big.0, big_held.1 - base_big.1, freed, buffered_total),
            witness,
        );
        return;
    }
    #[cfg(has_block_hook)]
    for k in &keys {
        let probe = CoapRequest::from_packet(Packet::from_bytes(&k.bytes()).unwrap(), CEp::new(100 + k.mid as u32));
        if crate::panicwatch::guard(|| server.handler.verif_peek(&probe).is_some()).unwrap_or(false) {
            rep.violation("expired-entry-still-visible", "hook still sees the expired entry".into(), witness);
            return;
        }
    }
    let _ = &keys;
    let _ = Packet::new();
    rep.count("reclaim_histories_held");
    rep.add("abandoned_transfers_reclaimed", n as u64);
    rep.add("abandoned_bytes_reclaimed", buffered_total as u64);
    rep.distinct(mix(&[3, d.as_millis() as u64, n as u64]));
    rep.sample_every(53, || format!("{} -> held {} instances before, {} idle, {} after; heap -{} bytes", witness, held, held_idle, held_after, freed));
}

pub fn run_c20(ctx: &mut Ctx) {
    let mut r = ctx.rng(20);
    let (level, budget, shard) = (ctx.level, ctx.budget, ctx.shard);
    let kc_seed = ctx.seed ^ 0x20;
    let lane_name = ctx.lane.clone();
    let rep = &mut ctx.rep;
    // "state for an (endpoint, method, path)": as many entries as keys (see isolation::key_conservation)
    if (shard >= 12 && level > 0) || (level == 0 && shard == 0) {
        let lane_salt = crate::rng::fnv(lane_name.as_bytes());
        crate::isolation::key_conservation(rep, match level { 0 => 300, 1 => 100_000, _ => 250_000 }, mix(&[kc_seed, shard, lane_salt, 20]));
    }
    let virt = vclock::enabled() && vclock::selftest();
    if virt {
        vclock::set_frozen(true);
        rep.note("virtual clock active and frozen: clock_gettime interposed, Instant moves only by injected delays (self-test passed)");
        let vc = Clock { virt: true };
        let durations = [Duration::from_secs(1), Duration::from_secs(120), Duration::from_secs(3600), Duration::from_millis(50)];
        for _ in 0..budget {
            let d = *r.pick(&durations);
            match r.below(4) {
                3 => scenario_slow_application(rep, &mut r, &vc, d),
                0 => {
                    let n_other = match r.below(4) {
                        0 => 1,
                        1 => r.urange(2, 20) as u32,
                        2 => r.urange(20, 300) as u32,
                        _ => {
                            if level == 0 {
                                50
                            } else {
                                r.urange(300, 2000) as u32
                            }
                        }
                    };
                    scenario_retention(rep, &mut r, &vc, d, n_other);
                }
                1 => {
                    let wait = match r.below(3) {
                        0 => d + EPS,
                        1 => d + d / 2,
                        _ => d * 10,
                    };
                    let touches = r.below(3) as u32;
                    // other keys busy during the idle period: gaps of wait/(n+1) < expiry
                    let traffic = match r.below(3) {
                        0 => 0,
                        1 => (wait.as_millis() / d.as_millis().max(1)) as u32 * 3 + 3,
                        _ => r.urange(20, 200) as u32,
                    };
                    scenario_expiry(rep, &mut r, &vc, d, wait, touches, traffic);
                    if traffic > 0 {
                        rep.count("expiry_histories_with_other_traffic");
                    }
                }
                _ => {
                    let n = r.urange(1, 50) as u32;
                    let traffic = r.bool();
                    scenario_reclaim(rep, &mut r, &vc, d, n, traffic);
                    if traffic {
                        rep.count("reclaim_histories_with_other_traffic");
                    }
                }
            }
        }
        // generations of abandoned uploads on one long-lived handler (well past a megabyte in total)
        if shard <= 3 && level >= 1 {
            let (gens, per) = *r.pick(&[(12u32, 8u32), (40, 3), (6, 20)]);
            scenario_long_lived(rep, &mut r, &vc, Duration::from_secs(120), gens, per);
            rep.floor("long_lived_handler_histories_held", 1);
        }
        // the one-hour / 2000-request retention case named in the property, once per shard 0
        if shard == 0 && level >= 1 {
            scenario_retention(rep, &mut r, &vc, Duration::from_secs(3600), 2000);
        }
        rep.floor("retention_histories_held", 1);
        rep.floor("expiry_histories_held", 1);
        rep.floor("expiry_histories_with_other_traffic", 1);
        rep.floor("reclaim_histories_held", 1);
        rep.floor("reclaim_histories_with_other_traffic", 1);
        rep.floor("slow_application_histories_held", 1);
        vclock::set_frozen(false);
    } else {
        rep.note("virtual clock not available in this build: real-time mode only (must-be-expired direction)");
    }
    // real time, as the property prescribes: only the must-be-expired direction is asserted
    let rc = Clock { virt: false };
    let n_real = if level >= 2 { 4 } else { 1 };
    for _ in 0..n_real {
        let d = Duration::from_millis(r.range(20, 60));
        scenario_expiry(rep, &mut r, &rc, d, d * 4 + Duration::from_millis(20), 0, 0);
        rep.count("real_time_expiry_runs");
        // reclamation in real time
        let d = Duration::from_millis(r.range(20, 60));
        let base_eps = live_endpoints();
        let mut server = Server::new(1200, d);
        let mut mid = 0u16;
        let n = r.urange(1, 20) as u32;
        for i in 0..n {
            let mut u = Ul { ep: 500 + i, path: vec!["rt".into()], body: body_bytes(i as u64, 3000), szx: 6, next: 0 };
            let _ = ul_block(&mut server, &mut u, &mut mid);
        }
        std::thread::sleep(d * 4 + Duration::from_millis(20));
        other_request(&mut server, 1, &mut mid);
        let held = live_endpoints() - base_eps;
        rep.eval();
        if held != 2 {
            rep.violation("expired-entries-not-reclaimed", format!("real time: {} abandoned uploads, slept 4x the {:?} expiry, one unrelated call: {} endpoint instances still held", n, d, held), format!("real-time reclamation, expiry {:?}, {} uploads", d, n));
        } else {
            rep.count("real_time_reclaim_runs");
        }
    }
    rep.floor("real_time_expiry_runs", 1);
}
