//! C19 — convenience accessors and coap-message trait views agree with raw message state.

use crate::codec::{gen_msg, GenCfg};
use crate::ctx::Ctx;
use crate::glue::{msg_to_packet, packet_to_msg};
use crate::optval::{be_value, min_be};
use crate::panicwatch::{guard, set_case_str};
use crate::refcodec::Msg;
use crate::registry::{named_content_formats, named_methods, named_statuses, CONTENT_FORMATS};
use crate::report::Report;
use crate::rng::{hex, Rng};
use coap_lite::{CoapOption, CoapRequest, CoapResponse, ContentFormat, MessageClass, ObserveOption, Packet, RequestType, ResponseType};

type Req = CoapRequest<u8>;

fn code_byte_on_wire(p: &Packet) -> Option<u8> {
    p.to_bytes_unlimited().ok().map(|b| b[1])
}

pub fn run_c19(ctx: &mut Ctx) {
    let mut r = ctx.rng(19);
    let (level, budget, shard, nshards) = (ctx.level, ctx.budget, ctx.shard, ctx.nshards);
    let rep = &mut ctx.rep;
    set_case_str("C19 accessors");
    if shard == 0 {
        methods_and_statuses(rep);
        content_formats(rep, &mut r);
        observe_flags(rep, level);
    }
    paths(rep, level, shard, nshards, &mut r, budget);
    trait_views(rep, &mut r, budget, level);
    if shard == 0 {
        rep.floor("method_set_get", 7);
        rep.floor("status_set_get", 27);
        rep.floor("content_format_set_get", CONTENT_FORMATS.len() as u64);
        rep.floor("observe_raw_checked", 100);
    }
    rep.floor("paths_checked", 50);
    rep.floor("trait_view_0_2_checked", 20);
    rep.floor("trait_view_0_3_checked", 20);
}

fn methods_and_statuses(rep: &mut Report) {
    let methods = named_methods();
    let statuses = named_statuses();
    // setter -> getter -> raw -> bytes, from empty and from a request holding another value
    for (m, byte) in methods.iter() {
        for (prev, _) in methods.iter().chain([(RequestType::UnKnown, 0xffu8)].iter()) {
            rep.eval();
            let res = guard(|| {
                let mut q: Req = CoapRequest::new();
                q.set_method(*prev);
                q.message.header.code = MessageClass::Response(ResponseType::Content);
                q.set_method(*m);
                (*q.get_method(), u8::from(q.message.header.code), code_byte_on_wire(&q.message))
            });
            match res {
                Ok((got, raw, wire)) if got == *m && raw == *byte && wire == Some(*byte) => rep.count("method_set_get"),
                other => rep.violation("method-accessor", format!("set_method({:?}) -> get {:?}", m, other.map_err(|p| p.text())), format!("{:?} after {:?}", m, prev)),
            }
        }
        rep.distinct(0x100 + *byte as u64);
    }
    for (s, byte) in statuses.iter() {
        for (prev, _) in statuses.iter().step_by(5) {
            rep.eval();
            let res = guard(|| {
                let mut req = Packet::new();
                req.header.message_id = 9;
                let mut resp = CoapResponse::new(&req).unwrap();
                resp.set_status(*prev);
                resp.set_status(*s);
                (*resp.get_status(), u8::from(resp.message.header.code), code_byte_on_wire(&resp.message))
            });
            match res {
                Ok((got, raw, wire)) if got == *s && raw == *byte && wire == Some(*byte) => rep.count("status_set_get"),
                other => rep.violation(&format!("status-accessor:{:?}", s), format!("set_status({:?}) -> (get_status, code byte, wire byte) = {:?}", s, other.map_err(|p| p.text())), format!("set_status({:?}) after {:?}", s, prev)),
            }
        }
        rep.distinct(0x200 + *byte as u64);
    }
    // all 256 code bytes through the getters
    for b in 0..=255u8 {
        rep.eval();
        let res = guard(|| {
            let mut q: Req = CoapRequest::new();
            q.message.header.code = MessageClass::from(b);
            let mut req = Packet::new();
            req.header.message_id = 1;
            let mut resp = CoapResponse::new(&req).unwrap();
            resp.message.header.code = MessageClass::from(b);
            (*q.get_method(), *resp.get_status())
        });
        let want_m = methods.iter().find(|(_, x)| *x == b).map(|x| x.0).unwrap_or(RequestType::UnKnown);
        let want_s = statuses.iter().find(|(_, x)| *x == b).map(|x| x.0).unwrap_or(ResponseType::UnKnown);
        match res {
            Ok((m, s)) => {
                if m != want_m {
                    rep.violation("get-method-of-code-byte", format!("code {:#04x}: get_method {:?}, want {:?}", b, m, want_m), format!("code byte {:#04x}", b));
                } else if s != want_s {
                    rep.violation(&format!("get-status-of-code-byte:{:?}", want_s), format!("code {:#04x}: get_status {:?}, want {:?}", b, s, want_s), format!("code byte {:#04x}", b));
                } else {
                    rep.count("code_bytes_through_getters");
                }
            }
            Err(p) => rep.violation(&p.sig(), p.text(), format!("code byte {:#04x}", b)),
        }
    }
}

fn cf_raw(p: &Packet) -> Vec<Vec<u8>> {
    p.get_option(CoapOption::ContentFormat).map(|l| l.iter().cloned().collect()).unwrap_or_default()
}

fn wire_has_single_cf(p: &Packet, id: usize) -> bool {
    match p.to_bytes_unlimited().ok().and_then(|b| Packet::from_bytes(&b).ok()) {
        Some(q) => cf_raw(&q) == vec![min_be(id as u64)],
        None => false,
    }
}

fn content_formats(rep: &mut Report, r: &mut Rng) {
    let all = named_content_formats();
    for (cf, id) in all.iter() {
        // 1: from empty
        rep.eval();
        let res = guard(|| {
            let mut p = crate::ctx::context_packet();
            let before = p.get_content_format();
            p.set_content_format(*cf);
            (before, p.get_content_format(), cf_raw(&p), wire_has_single_cf(&p, *id))
        });
        match res {
            Ok((None, Some(got), raw, true)) if got == *cf && raw == vec![min_be(*id as u64)] => rep.count("content_format_set_get"),
            other => rep.violation("content-format-accessor", format!("set_content_format({:?}) on a fresh packet: {:?}", cf, other.map_err(|p| p.text())), format!("{:?}", cf)),
        }
        rep.distinct(0x10000 + *id as u64);
        // 2: set twice (another format was there before)
        rep.eval();
        let (prev, prev_id) = *r.pick(&all);
        if prev_id == *id {
            continue;
        }
        let res = guard(|| {
            let mut p = crate::ctx::context_packet();
            p.set_content_format(prev);
            p.set_content_format(*cf);
            (p.get_content_format(), cf_raw(&p), wire_has_single_cf(&p, *id))
        });
        match res {
            Ok((Some(got), raw, true)) if got == *cf && raw == vec![min_be(*id as u64)] => rep.count("content_format_set_twice"),
            other => rep.violation("content-format-set-twice", format!("set {:?} then {:?}: (getter, raw Content-Format values, wire ok) = {:?}", prev, cf, other.map_err(|p| p.text())), format!("{:?} then {:?}", prev, cf)),
        }
        // 3: set after raw adds (one, or several values already there)
        rep.eval();
        let res = guard(|| {
            let mut p = crate::ctx::context_packet();
            p.add_option(CoapOption::ContentFormat, min_be(prev_id as u64));
            if *id % 2 == 0 {
                p.add_option(CoapOption::ContentFormat, vec![42]);
                p.add_option(CoapOption::ContentFormat, vec![]);
            }
            p.set_content_format(*cf);
            (p.get_content_format(), cf_raw(&p))
        });
        match res {
            Ok((Some(got), raw)) if got == *cf && raw == vec![min_be(*id as u64)] => rep.count("content_format_set_after_raw"),
            other => rep.violation("content-format-set-after-raw-add", format!("raw {} then set {:?}: {:?}", prev_id, cf, other.map_err(|p| p.text())), format!("raw {} then {:?}", prev_id, cf)),
        }
    }
    // the option already spells the format about to be set - padded, and followed by another value
    for (cf, id) in all.iter() {
        rep.eval();
        let res = guard(|| {
            let mut p = crate::ctx::context_packet();
            let mut padded = vec![0u8];
            padded.extend_from_slice(&min_be(*id as u64));
            padded.truncate(2.max(padded.len().min(2)));
            let padded = if min_be(*id as u64).len() < 2 { padded } else { min_be(*id as u64) };
            p.add_option(CoapOption::ContentFormat, padded);
            p.add_option(CoapOption::ContentFormat, vec![42]);
            p.set_content_format(*cf);
            (p.get_content_format(), cf_raw(&p), wire_has_single_cf(&p, *id))
        });
        match res {
            Ok((Some(got), raw, true)) if got == *cf && raw == vec![min_be(*id as u64)] => rep.count("content_format_set_over_same_number"),
            other => rep.violation("content-format-set-over-same-number", format!("option held a padded encoding of {} plus another value, then set_content_format({:?}): (getter, raw values, wire ok) = {:?}", id, cf, other.map_err(|p| p.text())), format!("{:?}", cf)),
        }
    }
    // every ordered pair of named formats: whatever was set before, the format set last is what getter, raw state and wire show
    for (prev, _pid) in all.iter() {
        for (cf, id) in all.iter() {
            rep.eval();
            let res = guard(|| {
                let mut p = crate::ctx::context_packet();
                p.set_content_format(*prev);
                p.set_content_format(*cf);
                (p.get_content_format(), cf_raw(&p))
            });
            match res {
                Ok((Some(got), raw)) if got == *cf && raw == vec![min_be(*id as u64)] => rep.count("content_format_ordered_pairs"),
                other => rep.violation("content-format-set-twice", format!("set {:?} then {:?}: (getter, raw Content-Format values) = {:?}", prev, cf, other.map_err(|p| p.text())), format!("{:?} then {:?}", prev, cf)),
            }
        }
    }
    // raw values without a name -> None; over-long -> None
    for id in [1usize, 2, 15, 20, 24, 39, 43, 64, 99, 100, 255, 257, 433, 9999, 10003, 65535] {
        rep.eval();
        debug_assert!(!CONTENT_FORMATS.iter().any(|x| x.0 == id));
        let mut p = crate::ctx::context_packet();
        p.add_option(CoapOption::ContentFormat, min_be(id as u64));
        match guard(|| p.get_content_format()) {
            Ok(None) => rep.count("content_format_unnamed_is_none"),
            other => rep.violation("content-format-unnamed", format!("raw id {} reads as {:?}", id, other.map_err(|p| p.text())), format!("raw content-format {}", id)),
        }
    }
    for raw in [vec![0u8, 0, 50], vec![1, 0, 0], vec![0, 0, 0, 0, 0]] {
        rep.eval();
        let mut p = crate::ctx::context_packet();
        p.add_option(CoapOption::ContentFormat, raw.clone());
        match guard(|| p.get_content_format()) {
            Ok(None) => rep.count("content_format_overlong_is_none"),
            other => rep.violation("content-format-overlong", format!("raw {} reads as {:?}", hex(&raw), other.map_err(|p| p.text())), hex(&raw)),
        }
    }
    // leading zeros are the same number
    {
        rep.eval();
        let mut p = crate::ctx::context_packet();
        p.add_option(CoapOption::ContentFormat, vec![0, 50]);
        match guard(|| p.get_content_format()) {
            Ok(Some(ContentFormat::ApplicationJSON)) => rep.count("content_format_leading_zero"),
            other => rep.violation("content-format-leading-zero", format!("raw 0032 reads as {:?}", other.map_err(|p| p.text())), "0032".into()),
        }
    }
}

fn observe_flags(rep: &mut Report, level: u32) {
    for (flag, n) in [(ObserveOption::Register, 0u64), (ObserveOption::Deregister, 1u64)] {
        for (pi, prev) in [None, Some(ObserveOption::Register), Some(ObserveOption::Deregister), None, Some(ObserveOption::Deregister)].into_iter().enumerate() {
            rep.eval();
            let res = guard(|| {
                let mut q: Req = CoapRequest::new();
                if pi == 3 {
                    // a FETCH request observes like a GET request does (RFC 8132)
                    q.set_method(coap_lite::RequestType::Fetch);
                }
                if pi == 4 {
                    // the getter reads the Observe option, whatever the code byte of the message says
                    q.message.header.code = coap_lite::MessageClass::from([0x45u8, 0x00, 0x84, 0xe1][n as usize * 2 % 4 + (flag == ObserveOption::Register) as usize]);
                }
                let before = q.get_observe_flag();
                if let Some(p) = prev {
                    q.set_observe_flag(p);
                } else {
                    q.message.add_option(CoapOption::Observe, vec![0x12, 0x34]);
                    q.message.add_option(CoapOption::Observe, vec![1]);
                    q.message.add_option(CoapOption::Observe, vec![]);
                }
                q.set_observe_flag(flag);
                let raw: Vec<Vec<u8>> = q.message.get_option(CoapOption::Observe).map(|l| l.iter().cloned().collect()).unwrap_or_default();
                (before.is_none(), q.get_observe_flag().map(|x| x.ok()), raw)
            });
            match res {
                Ok((true, Some(Some(got)), raw)) if got == flag && raw == vec![min_be(n)] => rep.count("observe_flag_set_get"),
                other => rep.violation("observe-flag-accessor", format!("set_observe_flag({:?}) after {:?}: {:?}", flag, prev, other.map_err(|p| p.text())), format!("{:?}", flag)),
            }
        }
    }
    // raw Observe bytes of length 0..6
    let lows: Vec<u16> = (0..=0x0300u16).step_by(if level == 0 { 41 } else { 1 }).chain([0xffffu16, 0x8000, 0x0100, 1, 2].iter().copied()).collect();
    for len in 0..=6usize {
        for &low in lows.iter() {
            for hi in [0u8, 1, 0xff] {
                let mut raw = vec![hi; len];
                if len >= 1 {
                    raw[len - 1] = low as u8;
                }
                if len >= 2 {
                    raw[len - 2] = (low >> 8) as u8;
                }
                if len < 2 && low > 0xff {
                    continue;
                }
                if len == 0 && low > 0 {
                    continue;
                }
                if len <= 2 && hi != 0 {
                    continue;
                }
                rep.eval();
                let res = guard(|| {
                    let mut q: Req = CoapRequest::new();
                    q.message.add_option(CoapOption::Observe, raw.clone());
                    q.get_observe_flag().map(|x| x.ok())
                });
                let want = if len > 4 {
                    Some(None)
                } else {
                    match be_value(&raw) {
                        0 => Some(Some(ObserveOption::Register)),
                        1 => Some(Some(ObserveOption::Deregister)),
                        _ => Some(None),
                    }
                };
                match res {
                    Ok(got) if got == want => {
                        rep.count("observe_raw_checked");
                        rep.distinct(0x20000 + (len as u64) * 8 + be_value(&raw).min(3));
                    }
                    other => rep.violation("observe-flag-of-raw", format!("raw {} -> {:?}, want {:?}", hex(&raw), other.map_err(|p| p.text()), want), hex(&raw)),
                }
            }
        }
    }
}

fn check_path(rep: &mut Report, s: &str, prior: Option<&str>) {
    rep.eval();
    let res = guard(|| {
        let mut q: Req = CoapRequest::new();
        if let Some(p) = prior {
            q.set_path(p);
        }
        // unrelated options must survive - and must not leak into the path: other options that carry
        // URI parts or paths of their own (Proxy-Uri, Uri-Host, Location-Path) ride along half of the time
        q.message.add_option(CoapOption::UriQuery, b"x=1".to_vec());
        if (s.len() + prior.map(|p| p.len()).unwrap_or(0)) % 2 == 0 {
            q.message.add_option(CoapOption::ProxyUri, b"coap://example.org/sensors/temp?unit=c".to_vec());
            q.message.add_option(CoapOption::UriHost, b"example.org".to_vec());
            q.message.add_option(CoapOption::LocationPath, b"elsewhere".to_vec());
            q.message.add_option(CoapOption::ProxyScheme, b"coap".to_vec());
        }
        q.set_path(s);
        let raw: Vec<Vec<u8>> = q.message.get_option(CoapOption::UriPath).map(|l| l.iter().cloned().collect()).unwrap_or_default();
        let query = q.message.get_option(CoapOption::UriQuery).map(|l| l.len());
        // through the wire as well
        let wire_raw: Option<Vec<Vec<u8>>> = q.message.to_bytes_unlimited().ok().and_then(|b| Packet::from_bytes(&b).ok()).map(|p| p.get_option(CoapOption::UriPath).map(|l| l.iter().cloned().collect()).unwrap_or_default());
        (q.get_path(), q.get_path_as_vec().map_err(|_| ()), raw, query, wire_raw)
    });
    let t = s.strip_prefix('/').unwrap_or(s);
    let want_raw: Vec<Vec<u8>> = if s.is_empty() { vec![] } else { t.split('/').map(|x| x.as_bytes().to_vec()).collect() };
    let want_vec: Vec<String> = want_raw.iter().map(|x| String::from_utf8(x.clone()).unwrap()).collect();
    let wit = format!("set_path({:?}) after {:?}", s, prior);
    match res {
        Err(p) => rep.violation(&p.sig(), p.text(), wit),
        Ok((path, vec, raw, query, wire_raw)) => {
            // what the property pins: the getter returns the string that was set (minus one leading
            // '/'), and getter, vector view, raw options and wire all show the SAME segments, whose
            // '/'-join is that string.  Whether "" is stored as no segment or as one empty segment is
            // not pinned (the reference segmentation is only reported as an observation).
            let raw_strings: Vec<String> = raw.iter().map(|x| String::from_utf8_lossy(x).to_string()).collect();
            if raw == want_raw {
                rep.count("paths_stored_with_reference_segmentation");
            }
            if path != t {
                rep.violation("path-roundtrip", format!("get_path() = {:?}, want {:?}", path, t), wit);
            } else if raw_strings.join("/") != t || raw.iter().any(|x| std::str::from_utf8(x).is_err()) {
                rep.violation("path-raw-segments", format!("Uri-Path values {:?} do not spell {:?} (reference segmentation {:?})", raw_strings, t, want_vec), wit);
            } else if vec != Ok(raw_strings.clone()) {
                rep.violation("path-as-vec", format!("get_path_as_vec() = {:?}, raw Uri-Path values {:?}", vec, raw_strings), wit);
            } else if query != Some(1) {
                rep.violation("path-setter-touched-other-option", format!("Uri-Query count {:?}", query), wit);
            } else if wire_raw != Some(raw.clone()) {
                rep.violation("path-on-wire", format!("decoded Uri-Path {:?}", wire_raw), wit);
            } else {
                rep.count("paths_checked");
            }
        }
    }
}

fn paths(rep: &mut Report, level: u32, shard: u64, nshards: u64, r: &mut Rng, budget: u64) {
    let alphabet = ['/', 'a', '.', 'é'];
    let maxlen = match level {
        0 => 3,
        1 => 5,
        _ => 7,
    };
    let priors = [None, Some("old/path/x"), Some("/"), Some("é")];
    let mut idx = 0u64;
    for len in 0..=maxlen {
        let n = 4u64.pow(len as u32);
        for v in 0..n {
            idx += 1;
            if idx % nshards != shard {
                continue;
            }
            let mut s = String::new();
            let mut x = v;
            for _ in 0..len {
                s.push(alphabet[(x % 4) as usize]);
                x /= 4;
            }
            check_path(rep, &s, priors[(idx / nshards % 4) as usize]);
            rep.distinct(0x30000 + crate::rng::fnv(s.as_bytes()) % 0xffff);
        }
    }
    for _ in 0..budget.min(20000) {
        let len = r.usize_below(30);
        let mut s = String::new();
        for _ in 0..len {
            s.push(match r.below(8) {
                0 | 1 => '/',
                2 => '.',
                3 => 'é',
                4 => '😁',
                5 => ' ',
                _ => (b'a' + r.below(26) as u8) as char,
            });
        }
        check_path(rep, &s, None);
    }
    // "whatever was there before": set_path on a request whose Uri-Path option holds arbitrary raw
    // values (from the wire or from raw adds: '/' inside a value, empty values, non-UTF-8 bytes)
    // must leave exactly what set_path leaves on a fresh request
    if shard == 0 || level == 0 {
        let pool: [&[u8]; 9] = [b"a", b"b", b"a/b", b"", "\u{e9}".as_bytes(), b"x/y/z", &[0xC3, 0x28], &[0xff], b"/"];
        let n = pool.len();
        let mut states: Vec<Vec<&[u8]>> = Vec::new();
        for i in 0..n {
            states.push(vec![pool[i]]);
            for j in 0..n {
                states.push(vec![pool[i], pool[j]]);
                if level > 0 && (i + j) % 3 == 0 {
                    for k in 0..n {
                        states.push(vec![pool[i], pool[j], pool[k]]);
                    }
                }
            }
        }
        for (si, st) in states.iter().enumerate() {
            if level == 0 && si % 7 != 0 {
                continue;
            }
            let dirty = |q: &mut Req| {
                for v in st {
                    q.message.add_option(CoapOption::UriPath, v.to_vec());
                }
            };
            // the text the dirty request itself reports, with and without a leading '/', and a few fixed ones
            let reported = {
                let mut q: Req = CoapRequest::new();
                dirty(&mut q);
                guard(|| q.get_path()).unwrap_or_default()
            };
            for newp in [reported.clone(), format!("/{}", reported), "a/b".to_string(), "b".to_string(), String::new(), "a".to_string()] {
                rep.eval();
                let res = guard(|| {
                    let mut fresh: Req = CoapRequest::new();
                    fresh.set_path(&newp);
                    let mut q: Req = CoapRequest::new();
                    dirty(&mut q);
                    q.set_path(&newp);
                    let raw = |x: &Req| -> Vec<Vec<u8>> { x.message.get_option(CoapOption::UriPath).map(|l| l.iter().cloned().collect()).unwrap_or_default() };
                    (raw(&fresh), raw(&q), fresh.message.to_bytes_unlimited().ok(), q.message.to_bytes_unlimited().ok())
                });
                let wit = format!("Uri-Path held {:?}, then set_path({:?})", st.iter().map(|v| hex(v)).collect::<Vec<_>>(), newp);
                match res {
                    Err(p) => rep.violation(&p.sig(), p.text(), wit),
                    Ok((f, q, fw, qw)) => {
                        if f != q || fw != qw {
                            rep.violation("set-path-depends-on-previous-state", format!("a fresh request ends up with Uri-Path {:?}, this one with {:?}", f.iter().map(|v| hex(v)).collect::<Vec<_>>(), q.iter().map(|v| hex(v)).collect::<Vec<_>>()), wit);
                        } else {
                            rep.count("set_path_over_raw_state");
                        }
                    }
                }
            }
        }
    }
    // non-UTF-8 raw segment: vec form is an error, string form does not panic
    rep.eval();
    let res = guard(|| {
        let mut q: Req = CoapRequest::new();
        q.message.add_option(CoapOption::UriPath, b"ok".to_vec());
        q.message.add_option(CoapOption::UriPath, vec![0xff, 0xfe]);
        (q.get_path(), q.get_path_as_vec().is_err())
    });
    match res {
        Ok((_, true)) => rep.count("non_utf8_segment_is_error"),
        other => rep.violation("path-non-utf8", format!("{:?}", other.map_err(|p| p.text())), "Uri-Path fffe".into()),
    }
    // no path at all
    for proxy in ["coap://example.org/sensors/temp?unit=c", "coap://h/a", "http://[::1]:80/x/y#f", "/just/a/path", "coap://h"] {
        rep.eval();
        let res = guard(|| {
            let mut q: Req = CoapRequest::new();
            q.message.add_option(CoapOption::ProxyUri, proxy.as_bytes().to_vec());
            q.message.add_option(CoapOption::LocationPath, b"loc".to_vec());
            let before = (q.get_path(), q.get_path_as_vec());
            q.set_path("");
            let after = (q.get_path(), q.get_path_as_vec().map(|v| v.into_iter().filter(|s| !s.is_empty()).collect::<Vec<_>>()));
            (before, after)
        });
        match res {
            Ok(((b, bv), (a2, av))) if b.is_empty() && bv == Ok(vec![]) && a2.is_empty() && av == Ok(vec![]) => rep.count("path_ignores_other_uri_options"),
            other => rep.violation("path-reads-other-options", format!("a request without Uri-Path but with Proxy-Uri {:?}: (get_path, get_path_as_vec) before / after set_path(\"\") = {:?}", proxy, other.map_err(|p| p.text())), format!("Proxy-Uri {:?}", proxy)),
        }
    }
    rep.eval();
    let q: Req = CoapRequest::new();
    if q.get_path() != "" || q.get_path_as_vec() != Ok(vec![]) {
        rep.violation("path-empty-request", format!("{:?} / {:?}", q.get_path(), q.get_path_as_vec()), "fresh request".into());
    }
}

fn plain(m: &Msg) -> Msg {
    Msg { ver: 1, typ: 0, token: vec![], mid: 0, code: m.code, options: m.options.clone(), payload: m.payload.clone() }
}

fn trait_views(rep: &mut Report, r: &mut Rng, budget: u64, level: u32) {
    let cfg = GenCfg { big: false, small: true };
    let n = if level == 0 { budget.min(200) } else { budget };
    for _ in 0..n {
        let m = gen_msg(r, &cfg);
        // half of the packets are assembled through a randomised call order that leaves cleared
        // (empty) option entries and replaced lists behind; raw state is the same message either way
        let (p, how) = if r.bool() { (msg_to_packet(&m), String::from("plain adds")) } else { crate::codec::build_packet(&m, r) };
        if packet_to_msg(&p) != m {
            rep.violation("api-readback", "getters differ from what was set".into(), format!("{} | {}", m.describe(), how));
            continue;
        }
        // a third of the packets additionally get runs of 1-3 NEIGHBOURING option keys that were added
        // and cleared again (empty value lists in front of, between and behind the real options)
        let mut p = p;
        let mut how = how;
        if r.chance(1, 3) {
            let present: Vec<u16> = m.options.iter().map(|o| o.0).collect();
            let mut anchors: Vec<u16> = vec![0];
            anchors.extend(present.iter().map(|n| n.saturating_add(1)));
            for a in anchors {
                if !r.chance(1, 2) {
                    continue;
                }
                let run = r.urange(1, 3) as u16;
                for k in 0..run {
                    let n = a.saturating_add(k);
                    if present.contains(&n) {
                        break;
                    }
                    p.add_option(CoapOption::from(n), vec![0xEE, 0xEE]);
                    p.clear_option(CoapOption::from(n));
                }
            }
            how.push_str(" + runs of cleared neighbouring keys");
            if packet_to_msg(&p) != m {
                rep.violation("api-readback", "getters differ from what was set after adding and clearing other keys".into(), format!("{} | {}", m.describe(), how));
                continue;
            }
            rep.count("trait_views_with_runs_of_cleared_keys");
        }
        let p = p;
        let wit = format!("{} | built by: {}", m.describe(), how);
        // the option iterators obey the Iterator protocol however they are consumed: k items through
        // next(), the rest through fold-based adaptors (for_each / count / last), nth, peekable
        {
            rep.eval();
            let res = guard(|| {
                let mut bad: Option<String> = None;
                let full2: Vec<(u16, Vec<u8>)> = {
                    use coap_message::{MessageOption, ReadableMessage};
                    <Packet as ReadableMessage>::options(&p).map(|o| (o.number(), o.value().to_vec())).collect()
                };
                for k in 0..=full2.len().min(3) {
                    {
                        use coap_message::{MessageOption, ReadableMessage};
                        let mut it = <Packet as ReadableMessage>::options(&p);
                        let mut got: Vec<(u16, Vec<u8>)> = Vec::new();
                        for _ in 0..k {
                            if let Some(o) = it.next() {
                                got.push((o.number(), o.value().to_vec()));
                            }
                        }
                        it.for_each(|o| got.push((o.number(), o.value().to_vec())));
                        if got != m.options {
                            bad = Some(format!("0.2 view: {} x next() then for_each yields {} of {} options", k, got.len(), m.options.len()));
                        }
                        let mut it = <Packet as ReadableMessage>::options(&p);
                        for _ in 0..k {
                            it.next();
                        }
                        let c = it.count();
                        if c + k.min(m.options.len()) != m.options.len() {
                            bad = Some(format!("0.2 view: {} x next() then count() = {} ({} options)", k, c, m.options.len()));
                        }
                        let mut it = <Packet as ReadableMessage>::options(&p);
                        for _ in 0..k {
                            it.next();
                        }
                        let last = it.last().map(|o| (o.number(), o.value().to_vec()));
                        if k < m.options.len() && last.as_ref() != m.options.last() {
                            bad = Some(format!("0.2 view: {} x next() then last() = {:?}", k, last.map(|l| l.0)));
                        }
                        let nth = <Packet as ReadableMessage>::options(&p).nth(k).map(|o| (o.number(), o.value().to_vec()));
                        if nth.as_ref() != m.options.get(k) {
                            bad = Some(format!("0.2 view: nth({}) = {:?}", k, nth.map(|l| l.0)));
                        }
                    }
                    {
                        use coap_message_0_3::{MessageOption, ReadableMessage};
                        let mut it = <Packet as ReadableMessage>::options(&p).peekable();
                        let mut got: Vec<(u16, Vec<u8>)> = Vec::new();
                        for _ in 0..k {
                            if let Some(o) = it.next() {
                                got.push((o.number(), o.value().to_vec()));
                            }
                        }
                        let _ = it.peek();
                        it.for_each(|o| got.push((o.number(), o.value().to_vec())));
                        if got != m.options {
                            bad = Some(format!("0.3 view: {} x next(), peek, then for_each yields {} of {} options", k, got.len(), m.options.len()));
                        }
                        let mut it = <Packet as ReadableMessage>::options(&p);
                        for _ in 0..k {
                            it.next();
                        }
                        let c = it.count();
                        if c + k.min(m.options.len()) != m.options.len() {
                            bad = Some(format!("0.3 view: {} x next() then count() = {} ({} options)", k, c, m.options.len()));
                        }
                        let longest = <Packet as ReadableMessage>::options(&p).map(|o| o.value().len()).max();
                        if longest != m.options.iter().map(|o| o.1.len()).max() {
                            bad = Some(format!("0.3 view: longest value {:?}", longest));
                        }
                    }
                }
                bad
            });
            match res {
                Err(pn) => rep.violation(&format!("trait-iterator-{}", pn.sig()), pn.text(), wit.clone()),
                Ok(Some(b)) => rep.violation("trait-iterator-protocol", b, wit.clone()),
                Ok(None) => rep.count("trait_iterator_protocol_checked"),
            }
        }
        // an insertion order that keeps the order of values within one option number
        let order: Vec<usize> = {
            let mut groups: Vec<Vec<usize>> = Vec::new();
            for (i, o) in m.options.iter().enumerate() {
                if i > 0 && m.options[i - 1].0 == o.0 {
                    groups.last_mut().unwrap().push(i);
                } else {
                    groups.push(vec![i]);
                }
            }
            for g in groups.iter_mut() {
                g.reverse();
            }
            let mut out = Vec::new();
            while !groups.is_empty() {
                let k = r.usize_below(groups.len());
                out.push(groups[k].pop().unwrap());
                if groups[k].is_empty() {
                    groups.swap_remove(k);
                }
            }
            out
        };
        // ---- coap-message 0.2
        rep.eval();
        let res = guard(|| {
            use coap_message::{MessageOption, MinimalWritableMessage, MutableWritableMessage, ReadableMessage};
            let code = <Packet as ReadableMessage>::code(&p);
            let payload = <Packet as ReadableMessage>::payload(&p).to_vec();
            let opts: Vec<(u16, Vec<u8>)> = <Packet as ReadableMessage>::options(&p).map(|o| (o.number(), o.value().to_vec())).collect();
            let mut q = Packet::new();
            <Packet as MinimalWritableMessage>::set_code(&mut q, code);
            for (n, v) in &opts {
                <Packet as MinimalWritableMessage>::add_option(&mut q, CoapOption::from(*n), v);
            }
            <Packet as MinimalWritableMessage>::set_payload(&mut q, &payload);
            let mut q2 = Packet::new();
            <Packet as MinimalWritableMessage>::set_from_message(&mut q2, &p);
            // options added in an arbitrary order (the type is a SeekWritableMessage): per-number order kept
            let mut q4 = Packet::new();
            <Packet as MinimalWritableMessage>::set_code(&mut q4, code);
            for i in order.iter() {
                <Packet as MinimalWritableMessage>::add_option(&mut q4, CoapOption::from(opts[*i].0), &opts[*i].1);
            }
            <Packet as MinimalWritableMessage>::set_payload(&mut q4, &payload);
            // a buffer that already holds a longer payload is mapped to a shorter length
            let mut q5 = p.clone();
            q5.payload = vec![0xCC; payload.len() + 9];
            let short = <Packet as MutableWritableMessage>::payload_mut_with_len(&mut q5, payload.len() / 2).len();
            let shrink_ok = short == payload.len() / 2 && q5.payload.len() == payload.len() / 2;
            // mutable view
            let mut q3 = q.clone();
            let newlen = payload.len() + 3;
            let view = <Packet as MutableWritableMessage>::payload_mut_with_len(&mut q3, newlen);
            let view_ok = view.len() == newlen && view[..payload.len()] == payload[..] && view[payload.len()..].iter().all(|b| *b == 0);
            view[newlen - 1] = 0x77;
            <Packet as MutableWritableMessage>::truncate(&mut q3, newlen - 1);
            let trunc_ok = q3.payload.len() == newlen - 1 && q3.payload[..payload.len()] == payload[..];
            // payload_mut is a view of the same bytes; space is unbounded
            let pm_ok = <Packet as MutableWritableMessage>::payload_mut(&mut q3).len() == newlen - 1 && <Packet as MutableWritableMessage>::available_space(&q3) == usize::MAX;
            let trunc_ok = trunc_ok && pm_ok;
            let mut seen: Vec<(u16, Vec<u8>)> = Vec::new();
            <Packet as MutableWritableMessage>::mutate_options(&mut q3, |n, v| {
                seen.push((u16::from(n), v.to_vec()));
                if !v.is_empty() {
                    v[0] ^= 0xff;
                }
            });
            (u8::from(code), payload, opts, q, q2, view_ok, trunc_ok && shrink_ok && packet_to_msg(&q4) == plain(&m), seen, q3)
        });
        match res {
            Err(pn) => rep.violation(&format!("trait-0.2-{}", pn.sig()), pn.text(), wit.clone()),
            Ok((code, payload, opts, q, q2, view_ok, trunc_ok, seen, q3)) => {
                let flipped: Vec<(u16, Vec<u8>)> = m
                    .options
                    .iter()
                    .map(|(n, v)| {
                        let mut v = v.clone();
                        if !v.is_empty() {
                            v[0] ^= 0xff;
                        }
                        (*n, v)
                    })
                    .collect();
                if code != m.code || payload != m.payload {
                    rep.violation("trait-0.2-read-code-payload", format!("code {:#x} payload {}B", code, payload.len()), wit.clone());
                } else if opts != m.options {
                    rep.violation("trait-0.2-read-options", format!("options() yielded {} items: {:?}", opts.len(), opts.iter().map(|o| o.0).collect::<Vec<_>>()), wit.clone());
                } else if packet_to_msg(&q) != plain(&m) {
                    rep.violation("trait-0.2-write", format!("written copy reads {}", packet_to_msg(&q).describe()), wit.clone());
                } else if packet_to_msg(&q2) != plain(&m) {
                    rep.violation("trait-0.2-set-from-message", format!("copy reads {}", packet_to_msg(&q2).describe()), wit.clone());
                } else if !view_ok || !trunc_ok {
                    rep.violation("trait-0.2-payload-mut-or-unordered-add", format!("payload_mut_with_len (grow) ok {}; truncate / shrink / options added in arbitrary order ok {}", view_ok, trunc_ok), wit.clone());
                } else if seen != m.options || packet_to_msg(&q3).options != flipped {
                    rep.violation("trait-0.2-mutate-options", format!("callback saw {} options", seen.len()), wit.clone());
                } else {
                    rep.count("trait_view_0_2_checked");
                }
            }
        }
        // ---- coap-message 0.3
        rep.eval();
        let res = guard(|| {
            use coap_message_0_3::{MessageOption, MinimalWritableMessage, MutableWritableMessage, ReadableMessage};
            let code = <Packet as ReadableMessage>::code(&p);
            let payload = <Packet as ReadableMessage>::payload(&p).to_vec();
            let opts: Vec<(u16, Vec<u8>)> = <Packet as ReadableMessage>::options(&p).map(|o| (o.number(), o.value().to_vec())).collect();
            let mut q = Packet::new();
            <Packet as MinimalWritableMessage>::set_code(&mut q, code);
            for (n, v) in &opts {
                <Packet as MinimalWritableMessage>::add_option(&mut q, CoapOption::from(*n), v).unwrap();
            }
            <Packet as MinimalWritableMessage>::set_payload(&mut q, &payload).unwrap();
            let mut q2 = Packet::new();
            let sfm = <Packet as MinimalWritableMessage>::set_from_message(&mut q2, &p).is_ok();
            let mut q4 = Packet::new();
            <Packet as MinimalWritableMessage>::set_code(&mut q4, code);
            for i in order.iter() {
                <Packet as MinimalWritableMessage>::add_option(&mut q4, CoapOption::from(opts[*i].0), &opts[*i].1).unwrap();
            }
            <Packet as MinimalWritableMessage>::set_payload(&mut q4, &payload).unwrap();
            let mut q5 = p.clone();
            q5.payload = vec![0xCC; payload.len() + 9];
            let short = <Packet as MutableWritableMessage>::payload_mut_with_len(&mut q5, payload.len() / 2).unwrap().len();
            let shrink_ok = short == payload.len() / 2 && q5.payload.len() == payload.len() / 2 && packet_to_msg(&q4) == plain(&m);
            let mut q3 = q.clone();
            let newlen = payload.len() + 2;
            let view = <Packet as MutableWritableMessage>::payload_mut_with_len(&mut q3, newlen).unwrap();
            let view_ok = view.len() == newlen && view[..payload.len()] == payload[..] && view[payload.len()..].iter().all(|b| *b == 0);
            <Packet as MutableWritableMessage>::truncate(&mut q3, payload.len() / 2).unwrap();
            let trunc_ok = q3.payload[..] == payload[..payload.len() / 2] && <Packet as MutableWritableMessage>::available_space(&q3) == usize::MAX;
            let mut seen: Vec<(u16, Vec<u8>)> = Vec::new();
            <Packet as MutableWritableMessage>::mutate_options(&mut q3, |n, v| {
                seen.push((u16::from(n), v.to_vec()));
                if !v.is_empty() {
                    let l = v.len();
                    v[l - 1] = v[l - 1].wrapping_add(1);
                }
            });
            (u8::from(code), payload, opts, q, q2, sfm, view_ok, trunc_ok && shrink_ok, seen, q3)
        });
        match res {
            Err(pn) => rep.violation(&format!("trait-0.3-{}", pn.sig()), pn.text(), wit.clone()),
            Ok((code, payload, opts, q, q2, sfm, view_ok, trunc_ok, seen, q3)) => {
                let bumped: Vec<(u16, Vec<u8>)> = m
                    .options
                    .iter()
                    .map(|(n, v)| {
                        let mut v = v.clone();
                        if let Some(l) = v.last_mut() {
                            *l = l.wrapping_add(1);
                        }
                        (*n, v)
                    })
                    .collect();
                if code != m.code || payload != m.payload {
                    rep.violation("trait-0.3-read-code-payload", format!("code {:#x} payload {}B", code, payload.len()), wit.clone());
                } else if opts != m.options {
                    rep.violation("trait-0.3-read-options", format!("options() yielded {} items: {:?}", opts.len(), opts.iter().map(|o| o.0).collect::<Vec<_>>()), wit.clone());
                } else if packet_to_msg(&q) != plain(&m) {
                    rep.violation("trait-0.3-write", format!("written copy reads {}", packet_to_msg(&q).describe()), wit.clone());
                } else if !sfm || packet_to_msg(&q2) != plain(&m) {
                    rep.violation("trait-0.3-set-from-message", format!("ok {} copy reads {}", sfm, packet_to_msg(&q2).describe()), wit.clone());
                } else if !view_ok || !trunc_ok {
                    rep.violation("trait-0.3-payload-mut-or-unordered-add", format!("payload_mut_with_len (grow) ok {}; truncate / shrink / options added in arbitrary order ok {}", view_ok, trunc_ok), wit.clone());
                } else if seen != m.options || packet_to_msg(&q3).options != bumped {
                    rep.violation("trait-0.3-mutate-options", format!("callback saw {} options", seen.len()), wit.clone());
                } else {
                    rep.count("trait_view_0_3_checked");
                    if m.options.len() >= 2 {
                        rep.distinct(crate::codec::msg_signature(&m));
                    }
                    rep.sample_every(4001, || format!("trait copy of {}", m.describe()));
                }
            }
        }
    }
}
