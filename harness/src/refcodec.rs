//! Reference CoAP codec written from RFC 7252 section 3 only.  Shares no code with /repo.
//!
//!   0                   1                   2                   3
//!   |Ver| T |  TKL  |      Code     |          Message ID           |
//!   |   Token (if any, TKL bytes) ...
//!   |   Options (if any) ...
//!   |1 1 1 1 1 1 1 1|    Payload (if any) ...
//!
//! Option: 4-bit delta | 4-bit length, each 0..12 literal, 13 => 1 ext byte (value-13),
//! 14 => 2 ext bytes big endian (value-269), 15 reserved (payload marker 0xFF only).

#[derive(Clone, Debug, PartialEq, Eq)]
pub struct Msg {
    pub ver: u8,  // 0..3
    pub typ: u8,  // 0..3
    pub token: Vec<u8>, // 0..8 bytes for well-formed
    pub code: u8,
    pub mid: u16,
    /// options in wire order: ascending number, stable within a number
    pub options: Vec<(u16, Vec<u8>)>,
    pub payload: Vec<u8>,
}

impl Msg {
    pub fn describe(&self) -> String {
        let mut s = format!(
            "ver={} typ={} tok={} code={:#04x} mid={} opts=[",
            self.ver,
            self.typ,
            crate::rng::hex(&self.token),
            self.code,
            self.mid
        );
        for (i, (n, v)) in self.options.iter().enumerate() {
            if i > 0 {
                s.push(' ');
            }
            if v.len() <= 12 {
                s.push_str(&format!("{}:{}", n, crate::rng::hex(v)));
            } else {
                s.push_str(&format!("{}:<{}B>", n, v.len()));
            }
        }
        s.push_str(&format!("] payload={}B", self.payload.len()));
        s
    }
}

pub const MAX_OPT_LEN: usize = 65535 + 269;

fn put_ext(out: &mut Vec<u8>, v: usize) {
    if v < 13 {
    } else if v < 269 {
        out.push((v - 13) as u8);
    } else {
        let x = v - 269;
        out.push((x >> 8) as u8);
        out.push((x & 0xff) as u8);
    }
}

fn nib(v: usize) -> u8 {
    if v < 13 {
        v as u8
    } else if v < 269 {
        13
    } else {
        14
    }
}

/// Length in bytes of one encoded option with the given delta and value length.
pub fn opt_len(delta: usize, vlen: usize) -> usize {
    let e = |v: usize| if v < 13 { 0 } else if v < 269 { 1 } else { 2 };
    1 + e(delta) + e(vlen) + vlen
}

/// The RFC 7252 wire image.  `None` when some option value cannot be represented
/// (longer than 65535+269).  A 0.00 message carries neither marker nor payload.
pub fn encode(m: &Msg) -> Option<Vec<u8>> {
    let mut out = Vec::new();
    out.push((m.ver & 3) << 6 | (m.typ & 3) << 4 | (m.token.len() as u8 & 0x0f));
    out.push(m.code);
    out.push((m.mid >> 8) as u8);
    out.push((m.mid & 0xff) as u8);
    out.extend_from_slice(&m.token);
    let mut prev: usize = 0;
    for (n, v) in &m.options {
        let n = *n as usize;
        debug_assert!(n >= prev);
        let delta = n - prev;
        if v.len() > MAX_OPT_LEN {
            return None;
        }
        out.push(nib(delta) << 4 | nib(v.len()));
        put_ext(&mut out, delta);
        put_ext(&mut out, v.len());
        out.extend_from_slice(v);
        prev = n;
    }
    if m.code != 0 && !m.payload.is_empty() {
        out.push(0xff);
        out.extend_from_slice(&m.payload);
    }
    Some(out)
}

pub fn wire_len(m: &Msg) -> Option<usize> {
    let mut l = 4 + m.token.len();
    let mut prev = 0usize;
    for (n, v) in &m.options {
        if v.len() > MAX_OPT_LEN {
            return None;
        }
        l += opt_len(*n as usize - prev, v.len());
        prev = *n as usize;
    }
    if m.code != 0 && !m.payload.is_empty() {
        l += 1 + m.payload.len();
    }
    Some(l)
}

#[derive(Clone, Debug, PartialEq, Eq)]
pub enum Reject {
    Short,
    Tkl,
    TokenTrunc,
    DeltaNibble15,
    LenNibble15,
    DeltaExtTrunc,
    LenExtTrunc,
    ValueTrunc,
    NumberOverflow,
}

impl Reject {
    pub fn name(&self) -> &'static str {
        match self {
            Reject::Short => "short",
            Reject::Tkl => "tkl9-15",
            Reject::TokenTrunc => "token-trunc",
            Reject::DeltaNibble15 => "delta-nibble15",
            Reject::LenNibble15 => "len-nibble15",
            Reject::DeltaExtTrunc => "delta-ext-trunc",
            Reject::LenExtTrunc => "len-ext-trunc",
            Reject::ValueTrunc => "value-trunc",
            Reject::NumberOverflow => "number>65535",
        }
    }
}

#[derive(Clone, Debug, PartialEq, Eq)]
pub enum Verdict {
    /// well formed, version 1: must be accepted with exactly these fields
    MustAccept(Msg),
    /// framing error: must be rejected with some error
    MustReject(Reject),
    /// framing parses, but an RFC-conformant parser may also reject it:
    /// version != 1, marker followed by nothing, content in a 0.00 message.
    /// If accepted, exactly these fields.
    Either(Msg, &'static str),
}

/// Three-valued reference parse of a datagram.
pub fn parse(b: &[u8]) -> Verdict {
    if b.len() < 4 {
        return Verdict::MustReject(Reject::Short);
    }
    let ver = b[0] >> 6;
    let typ = (b[0] >> 4) & 3;
    let tkl = (b[0] & 0x0f) as usize;
    let code = b[1];
    let mid = (b[2] as u16) << 8 | b[3] as u16;
    if tkl > 8 {
        return Verdict::MustReject(Reject::Tkl);
    }
    if b.len() < 4 + tkl {
        return Verdict::MustReject(Reject::TokenTrunc);
    }
    let token = b[4..4 + tkl].to_vec();
    let mut i = 4 + tkl;
    let mut number: u32 = 0;
    let mut options = Vec::new();
    let mut payload = Vec::new();
    let mut empty_after_marker = false;
    while i < b.len() {
        let h = b[i];
        if h == 0xff {
            payload = b[i + 1..].to_vec();
            if payload.is_empty() {
                empty_after_marker = true;
            }
            break;
        }
        i += 1;
        let dn = (h >> 4) as u32;
        let ln = (h & 0x0f) as usize;
        if dn == 15 {
            return Verdict::MustReject(Reject::DeltaNibble15);
        }
        // RFC order: delta extension bytes precede length extension bytes; a reserved length
        // nibble is a format error wherever the input ends, so check nibbles first only when
        // both are decidable: we follow the order of the wire (delta ext, then length nibble).
        let delta: u32 = match dn {
            13 => {
                if i >= b.len() {
                    // the length nibble may also be 15: both are errors; report either
                    return Verdict::MustReject(if ln == 15 { Reject::LenNibble15 } else { Reject::DeltaExtTrunc });
                }
                let d = b[i] as u32 + 13;
                i += 1;
                d
            }
            14 => {
                if i + 2 > b.len() {
                    return Verdict::MustReject(if ln == 15 { Reject::LenNibble15 } else { Reject::DeltaExtTrunc });
                }
                let d = ((b[i] as u32) << 8 | b[i + 1] as u32) + 269;
                i += 2;
                d
            }
            d => d,
        };
        if ln == 15 {
            return Verdict::MustReject(Reject::LenNibble15);
        }
        let len: usize = match ln {
            13 => {
                if i >= b.len() {
                    return Verdict::MustReject(Reject::LenExtTrunc);
                }
                let l = b[i] as usize + 13;
                i += 1;
                l
            }
            14 => {
                if i + 2 > b.len() {
                    return Verdict::MustReject(Reject::LenExtTrunc);
                }
                let l = ((b[i] as usize) << 8 | b[i + 1] as usize) + 269;
                i += 2;
                l
            }
            l => l,
        };
        number += delta;
        if number > 65535 {
            // both a too-large number and a truncated value are errors; either way reject
            return Verdict::MustReject(Reject::NumberOverflow);
        }
        if i + len > b.len() {
            return Verdict::MustReject(Reject::ValueTrunc);
        }
        options.push((number as u16, b[i..i + len].to_vec()));
        i += len;
    }
    let m = Msg { ver, typ, token, code, mid, options, payload };
    if ver != 1 {
        return Verdict::Either(m, "version!=1");
    }
    if empty_after_marker {
        return Verdict::Either(m, "marker-then-nothing");
    }
    if code == 0 && b.len() > 4 {
        return Verdict::Either(m, "content-in-empty");
    }
    Verdict::MustAccept(m)
}

/// What re-encoding an accepted datagram must produce (C02): the input, minus a trailing
/// payload marker with nothing after it, minus marker+payload of a 0.00 message.
pub fn normalise(b: &[u8], parsed: &Msg) -> Vec<u8> {
    let mut out = b.to_vec();
    let plen = parsed.payload.len();
    // locate the marker: it is right before the payload, or the last byte when payload is empty
    // and the last byte is a marker in option-header position.  Use the parsed structure.
    let mut hdr_opts = 4 + parsed.token.len();
    let mut prev = 0usize;
    for (n, v) in &parsed.options {
        hdr_opts += opt_len(*n as usize - prev, v.len());
        prev = *n as usize;
    }
    let has_marker = b.len() > hdr_opts; // then b[hdr_opts] == 0xff
    if has_marker {
        debug_assert_eq!(b[hdr_opts], 0xff);
        debug_assert_eq!(b.len(), hdr_opts + 1 + plen);
        if plen == 0 || parsed.code == 0 {
            out.truncate(hdr_opts);
        }
    }
    out
}
