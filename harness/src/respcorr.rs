//! C07 — prepared responses are correlated with their request.

use crate::ctx::Ctx;
use crate::glue::{mtype, mtype_num, packet_to_msg};
use crate::panicwatch::{guard, set_case_str};
use crate::registry::named_statuses;
use crate::report::Report;
use crate::rng::{hex, Rng};
use coap_lite::error::HandlingError;
use coap_lite::{CoapOption, CoapRequest, CoapResponse, ContentFormat, MessageClass, Packet, ResponseType};

fn make_request(r: &mut Rng, ver: u8, typ: u8, tkl: usize, mid: u16) -> Packet {
    let mut p = Packet::new();
    p.header.set_version(ver);
    p.header.set_type(mtype(typ));
    p.header.message_id = mid;
    p.header.code = MessageClass::from(match r.below(4) {
        0 => 1,
        1 => 2,
        2 => r.byte(),
        _ => 3,
    });
    let mut tok = r.bytes(tkl);
    if tkl > 0 && r.chance(1, 4) {
        tok[0] = 0;
    }
    p.set_token(tok);
    match r.below(7) {
        0 => {}
        4 | 5 => {
            // RFC 7967 No-Response with every kind of mask, alone or with a path
            let mask = match r.below(4) {
                0 => vec![*r.pick(&[0x02u8, 0x08, 0x10, 0x18, 0x1a, 0x0a, 0x12])],
                1 => vec![r.byte()],
                2 => vec![],
                _ => vec![0x08, 0x00],
            };
            p.add_option(CoapOption::NoResponse, mask);
            if r.bool() {
                p.add_option(CoapOption::UriPath, b"quiet".to_vec());
            }
        }
        6 => {
            p.add_option(CoapOption::IfNoneMatch, vec![]);
            p.add_option(CoapOption::Observe, vec![r.byte() & 1]);
            p.add_option(CoapOption::Block1, vec![0x0e]);
            p.add_option(CoapOption::Size1, vec![4, 0]);
            p.add_option(CoapOption::Accept, vec![60]);
        }
        1 => p.add_option(CoapOption::UriPath, b"a".to_vec()),
        2 => {
            p.add_option(CoapOption::UriPath, b"sensor".to_vec());
            p.add_option(CoapOption::ContentFormat, vec![50]);
            p.add_option(CoapOption::Block2, vec![0x06]);
            p.add_option(CoapOption::Observe, vec![]);
        }
        _ => p.add_option(CoapOption::Unknown(65000), r.bytes(3)),
    }
    if r.bool() {
        let n = r.usize_below(12) + 1;
        p.payload = r.bytes(n);
    }
    p
}

fn check_response(rep: &mut Report, req: &Packet, resp: &Option<CoapResponse>, how: &str) -> bool {
    let typ = mtype_num(req.header.get_type());
    let wit = || format!("request {} via {}", packet_to_msg(req).describe(), how);
    match resp {
        None => {
            if typ <= 1 {
                rep.violation("no-response-for-con-or-non", "no response prepared for a CON/NON request".into(), wit());
                return false;
            }
            rep.count("no_response_for_ack_rst");
            true
        }
        Some(resp) => {
            if typ > 1 {
                rep.violation("response-for-ack-or-rst", format!("response prepared for a type-{} message", typ), wit());
                return false;
            }
            let m = &resp.message;
            let want_type = if typ == 0 { 2 } else { 1 };
            let got_type = mtype_num(m.header.get_type());
            if got_type != want_type {
                rep.violation("reply-type", format!("request type {} answered with type {} (want {})", typ, got_type, want_type), wit());
                return false;
            }
            if m.header.get_version() != 1 {
                rep.violation("reply-version", format!("version {}", m.header.get_version()), wit());
                return false;
            }
            if m.header.message_id != req.header.message_id {
                rep.violation("reply-message-id", format!("mid {} vs request {}", m.header.message_id, req.header.message_id), wit());
                return false;
            }
            if m.get_token() != req.get_token() || m.header.get_token_length() as usize != req.get_token().len() {
                rep.violation("reply-token", format!("token {} (TKL {}) vs request {}", hex(m.get_token()), m.header.get_token_length(), hex(req.get_token())), wit());
                return false;
            }
            if u8::from(m.header.code) != 0x45 {
                rep.violation("reply-default-code", format!("code {}", m.header.code), wit());
                return false;
            }
            if m.options().any(|(_, l)| !l.is_empty()) {
                rep.violation("reply-has-options", format!("{}", packet_to_msg(m).describe()), wit());
                return false;
            }
            if !m.payload.is_empty() {
                rep.violation("reply-echoes-payload", format!("{} payload bytes", m.payload.len()), wit());
                return false;
            }
            rep.count(if typ == 0 { "con_answered_with_ack" } else { "non_answered_with_non" });
            true
        }
    }
}

pub fn run_c07(ctx: &mut Ctx) {
    let mut r = ctx.rng(7);
    let (level, shard, nshards) = (ctx.level, ctx.shard, ctx.nshards);
    let rep = &mut ctx.rep;
    rep.exhaustive = false;
    if level >= 2 {
        rep.note("the product type x version x token length x ALL 65536 message ids was enumerated completely (request contents are sampled)");
    }
    set_case_str("C07 response correlation");
    let stride: u32 = match level {
        0 => 4099,
        1 => 61,
        _ => 1,
    };
    let boundary = [0u16, 1, 2, 0x00ff, 0x0100, 0x7fff, 0x8000, 0xff00, 0xfffe, 0xffff];
    let mut idx = 0u64;
    // bare messages: every code byte (0.00 "ping" included) with no options and no payload, and the
    // same with exactly one of token / option / payload present
    for typ in 0..4u8 {
        for ver in [1u8, 0, 3] {
            for code in 0..=255u8 {
                for shape in 0..5u8 {
                    idx += 1;
                    if idx % nshards != shard {
                        continue;
                    }
                    rep.eval();
                    let mut req = Packet::new();
                    req.header.set_version(ver);
                    req.header.set_type(mtype(typ));
                    req.header.message_id = boundary[(idx as usize / 7) % boundary.len()] ^ (code as u16);
                    req.header.code = MessageClass::from(code);
                    match shape {
                        1 => req.set_token(vec![0]),
                        2 => req.add_option(CoapOption::UriPath, vec![]),
                        3 => req.payload = vec![0],
                        4 => req.set_token(vec![0xff; 8]),
                        _ => {}
                    }
                    let res = guard(|| (CoapResponse::new(&req), CoapRequest::from_packet(req.clone(), 5u32)));
                    match res {
                        Err(p) => rep.violation(&p.sig(), p.text(), packet_to_msg(&req).describe()),
                        Ok((a, rq)) => {
                            if check_response(rep, &req, &a, "CoapResponse::new (bare message)") && check_response(rep, &req, &rq.response, "CoapRequest::from_packet (bare message)") {
                                rep.count("bare_messages_checked");
                                rep.distinct(0xBA_0000_0000 | (typ as u64) << 16 | (code as u64) << 8 | shape as u64);
                            }
                        }
                    }
                }
            }
        }
    }
    for typ in 0..4u8 {
        for ver in 0..4u8 {
            for tkl in 0..=8usize {
                let mut mid: u32 = 0;
                loop {
                    let mids: Vec<u16> = if mid == 0 && stride > 1 { boundary.to_vec() } else { vec![mid as u16] };
                    for m in mids {
                        idx += 1;
                        if idx % nshards != shard {
                            continue;
                        }
                        rep.eval();
                        let req = make_request(&mut r, ver, typ, tkl, m);
                        let res = guard(|| {
                            let a = CoapResponse::new(&req);
                            let rq = CoapRequest::from_packet(req.clone(), 77u32);
                            (a, rq)
                        });
                        let (a, rq) = match res {
                            Err(p) => {
                                rep.violation(&p.sig(), p.text(), packet_to_msg(&req).describe());
                                continue;
                            }
                            Ok(x) => x,
                        };
                        if !check_response(rep, &req, &a, "CoapResponse::new") {
                            continue;
                        }
                        if !check_response(rep, &req, &rq.response, "CoapRequest::from_packet") {
                            continue;
                        }
                        if rq.message != req || rq.source != Some(77u32) {
                            rep.violation("from-packet-wiring", "from_packet altered the message or lost the source".into(), packet_to_msg(&req).describe());
                            continue;
                        }
                        rep.distinct((typ as u64) << 40 | (ver as u64) << 36 | (tkl as u64) << 32 | (m >> 8) as u64);
                        // through the wire, for a subset
                        if idx % 16 < nshards.min(16) && idx / 16 % 4 == 0 {
                            if let Ok(Ok(bytes)) = guard(|| req.to_bytes_unlimited()) {
                                if let Ok(Ok(q)) = guard(|| Packet::from_bytes(&bytes)) {
                                    let resp = CoapResponse::new(&q);
                                    // compare with the request as the client sent it
                                    if check_response(rep, &req, &resp, "to_bytes/from_bytes/CoapResponse::new") {
                                        rep.count("via_wire_checked");
                                        if let Some(resp) = resp {
                                            match guard(|| resp.message.to_bytes().map(|b| Packet::from_bytes(&b))) {
                                                Ok(Ok(Ok(back))) => {
                                                    let ok = back.header.message_id == req.header.message_id
                                                        && back.get_token() == req.get_token()
                                                        && mtype_num(back.header.get_type()) == if typ == 0 { 2 } else { 1 }
                                                        && u8::from(back.header.code) == 0x45
                                                        && back.payload.is_empty();
                                                    if ok {
                                                        rep.count("encoded_reply_decodes_to_same");
                                                    } else {
                                                        rep.violation("encoded-reply", format!("encoded reply decodes to {}", packet_to_msg(&back).describe()), packet_to_msg(&req).describe());
                                                    }
                                                }
                                                other => rep.violation("encoded-reply", format!("reply does not encode/decode: {:?}", other.map_err(|p| p.text()).map(|_| "error")), packet_to_msg(&req).describe()),
                                            }
                                        }
                                    }
                                }
                            }
                        }
                    }
                    mid += stride;
                    if mid > 65535 {
                        break;
                    }
                }
            }
        }
    }
    c07_errors(rep, &mut r, shard, nshards);
    rep.sample(|| {
        let req = make_request(&mut r, 1, 0, 4, 0xbeef);
        let resp = CoapResponse::new(&req).unwrap();
        format!("request {} -> reply {}", packet_to_msg(&req).describe(), packet_to_msg(&resp.message).describe())
    });
    rep.floor("con_answered_with_ack", 20);
    rep.floor("non_answered_with_non", 20);
    rep.floor("no_response_for_ack_rst", 20);
    rep.floor("error_applied", 4);
    rep.floor("error_not_applied", 4);
}

fn c07_errors(rep: &mut Report, r: &mut Rng, shard: u64, nshards: u64) {
    let mut eidx = 0u64;
    let mut errors: Vec<(String, HandlingError)> = vec![
        ("not_handled".into(), HandlingError::not_handled()),
        ("not_found".into(), HandlingError::not_found()),
        ("bad_request".into(), HandlingError::bad_request("bad \"thing\" é")),
        ("internal".into(), HandlingError::internal(String::from("boom"))),
        ("method_not_supported".into(), HandlingError::method_not_supported()),
        ("code-none-literal".into(), HandlingError { code: None, message: "ignored".into() }),
        ("empty-message".into(), HandlingError::with_code(ResponseType::Forbidden, "")),
    ];
    for (s, _) in named_statuses() {
        errors.push((format!("with_code({:?})", s), HandlingError::with_code(s, format!("diag {:?}", s))));
    }
    // long diagnostics: alone below the message size limit, together with what the reply already carries above it
    for len in [600usize, 1270, 1281, 3000, 70_000] {
        errors.push((format!("internal({}B diagnostic)", len), HandlingError::internal("d".repeat(len))));
    }
    for (name, err) in errors {
        eidx += 1;
        if eidx % nshards != shard {
            continue;
        }
        for typ in 0..4u8 {
            for tkl in [0usize, 3, 8, 1, 5, 2, 7] {
                for pre_cf in [false, true] {
                    rep.eval();
                    let mid = r.next_u64() as u16;
                    let req = make_request(r, 1, typ, tkl, mid);
                    let mut rq = CoapRequest::from_packet(req.clone(), 5u8);
                    if pre_cf {
                        if let Some(resp) = rq.response.as_mut() {
                            // the application had started to build a JSON reply
                            resp.message.set_content_format(ContentFormat::ApplicationJSON);
                            resp.message.payload = b"{}".to_vec();
                        }
                    }
                    // ... or re-targeted it (separate response: own type and message id), or touched other parts
                    let premut = r.below(14);
                    if premut == 8 {
                        // the final block of an upload: request and reply carry the same Block1 value (the
                        // acknowledgement a block handler put on the reply) - any error may follow, 4.08 included
                        let b1 = vec![0x10 | (r.below(7) as u8)];
                        rq.message.add_option(CoapOption::Block1, b1.clone());
                        if let Some(resp) = rq.response.as_mut() {
                            resp.message.add_option(CoapOption::Block1, b1);
                        }
                    }
                    if premut == 7 {
                        // the application had accepted an observation before a later step failed
                        if let Some(resp) = rq.response.as_mut() {
                            resp.message.set_observe_value(r.next_u64() as u32 & 0xff_ffff);
                            resp.message.add_option(CoapOption::MaxAge, vec![30]);
                        }
                    }
                    if premut == 6 {
                        // the reply was already taken out and sent: nothing is left to apply an error to
                        rq.response = None;
                    }
                    if let Some(resp) = rq.response.as_mut() {
                        match premut {
                            4 => {
                                // a reply that already carries a lot (e.g. what a block handler or the application put there)
                                resp.message.add_option(CoapOption::ETag, vec![9; 8]);
                                resp.message.add_option(CoapOption::LocationPath, vec![b'l'; 255]);
                                resp.message.add_option(CoapOption::LocationPath, vec![b'm'; 255]);
                                resp.message.add_option(CoapOption::LocationQuery, vec![b'q'; 200]);
                                resp.message.add_option(CoapOption::Block2, vec![0x0e]);
                            }
                            5 => {
                                resp.message.add_option(CoapOption::Unknown(2000), vec![0x62; 1200 + r.usize_below(200)]);
                                resp.message.add_option(CoapOption::MaxAge, vec![0]);
                                resp.message.add_option(CoapOption::Block1, vec![0x16]);
                            }
                            1 => {
                                resp.message.header.set_type(coap_lite::MessageType::Confirmable);
                                resp.message.header.message_id = resp.message.header.message_id.wrapping_add(77);
                            }
                            2 => {
                                resp.message.header.set_type(coap_lite::MessageType::NonConfirmable);
                                resp.message.add_option(CoapOption::ETag, vec![1, 2]);
                                resp.message.add_option(CoapOption::MaxAge, vec![60]);
                            }
                            3 => {
                                resp.message.header.set_version(1);
                                resp.message.header.set_type(coap_lite::MessageType::Reset);
                                resp.message.set_token(vec![0xEE]);
                            }
                            _ => {}
                        }
                    }
                    if premut >= 12 {
                        // the client asked for a size estimate (Size2 on the request) and the application had
                        // already described its body: Size2 equal to the payload length (12) or the total of a
                        // larger representation (13) - an error replaces code, payload and content format only
                        rq.message.add_option(CoapOption::Size2, vec![]);
                        if let Some(resp) = rq.response.as_mut() {
                            let n = 1 + r.usize_below(300);
                            resp.message.payload = vec![0x70; n];
                            let total = if premut == 12 { n as u64 } else { n as u64 + 4096 };
                            resp.message.add_option(CoapOption::Size2, crate::optval::min_be(total));
                            resp.message.add_option(CoapOption::ETag, vec![7, 7]);
                        }
                    }
                    if (9..=11).contains(&premut) {
                        // the reply already looks like an error reply of the same shape: an earlier error with the
                        // same code whose diagnostic has the same LENGTH but other bytes was applied (9), the
                        // application itself had put code + text/plain + an equally long body there (10), or only
                        // the length and content format coincide while the code differs (11)
                        // (long diagnostics get a plain filler: byte-wise work on 70 kB is what the interpreter lane cannot afford)
                        let other = if err.message.len() > 512 {
                            "z".repeat(err.message.len())
                        } else {
                            let o: Vec<u8> = err.message.bytes().rev().map(|b| if b == b'x' { b'y' } else { b ^ 0x01 }).collect();
                            let o = String::from_utf8_lossy(&o).into_owned();
                            if o.len() == err.message.len() { o } else { "z".repeat(err.message.len()) }
                        };
                        match (premut, err.code) {
                            (9, Some(c)) => {
                                let _ = guard(|| rq.apply_from_error(HandlingError::with_code(c, other.clone())));
                            }
                            (10, Some(c)) => {
                                if let Some(resp) = rq.response.as_mut() {
                                    resp.message.header.code = MessageClass::Response(c);
                                    resp.message.set_content_format(ContentFormat::TextPlain);
                                    resp.message.payload = other.clone().into_bytes();
                                }
                            }
                            _ => {
                                if let Some(resp) = rq.response.as_mut() {
                                    resp.message.header.code = MessageClass::Response(ResponseType::Conflict);
                                    resp.message.set_content_format(ContentFormat::TextPlain);
                                    resp.message.payload = other.clone().into_bytes();
                                }
                            }
                        }
                    }
                    let before = rq.clone();
                    let e = err.clone();
                    let ret = match guard(|| rq.apply_from_error(e)) {
                        Err(p) => {
                            rep.violation(&p.sig(), p.text(), format!("{} on {}", name, packet_to_msg(&req).describe()));
                            continue;
                        }
                        Ok(b) => b,
                    };
                    let wit = format!("apply_from_error({}) on request type {} tkl {} pre-set-content-format {} reply re-targeted beforehand: variant {}", name, typ, tkl, pre_cf, premut);
                    let should = before.response.is_some() && err.code.is_some();
                    if ret != should {
                        rep.violation("apply-return-value", format!("returned {} (response present {}, code present {})", ret, before.response.is_some(), err.code.is_some()), wit);
                        continue;
                    }
                    if rq.message != before.message || rq.source != before.source {
                        rep.violation("apply-changed-request", "request message or source changed".into(), wit);
                        continue;
                    }
                    if !should {
                        if rq.response != before.response {
                            rep.violation("apply-changed-reply-on-failure", "returned false but the reply was modified".into(), wit);
                        } else {
                            rep.count("error_not_applied");
                        }
                        continue;
                    }
                    let m = &rq.response.as_ref().unwrap().message;
                    let b = &before.response.as_ref().unwrap().message;
                    if m.header.get_type() != b.header.get_type() || m.header.message_id != b.header.message_id || m.get_token() != b.get_token() || m.header.get_version() != b.header.get_version() {
                        rep.violation("apply-changed-correlation", format!("{} -> {}", packet_to_msg(b).describe(), packet_to_msg(m).describe()), wit);
                        continue;
                    }
                    if m.header.code != MessageClass::Response(err.code.unwrap()) {
                        rep.violation("apply-code", format!("code {} instead of {:?}", m.header.code, err.code), wit);
                        continue;
                    }
                    // the diagnostic payload is the error's message; a very long one may arrive shortened
                    // (the property does not ask for diagnostics beyond the message size limit to be carried whole)
                    let long = err.message.len() > 512;
                    if (!long && m.payload != err.message.as_bytes()) || (long && !(err.message.as_bytes().starts_with(&m.payload) && m.payload.len() >= 256)) {
                        rep.violation("apply-payload", format!("payload {:?}", String::from_utf8_lossy(&m.payload)), wit);
                        continue;
                    }
                    if m.get_content_format() != Some(ContentFormat::TextPlain) {
                        rep.violation(
                            if pre_cf { "apply-content-format-after-preset" } else { "apply-content-format" },
                            format!("content format reads {:?}; raw Content-Format options {:?}", m.get_content_format(), m.get_option(CoapOption::ContentFormat)),
                            wit,
                        );
                        continue;
                    }
                    // nothing else was touched
                    let others_same = m.options().filter(|(n, _)| **n != 12).map(|(n, l)| (*n, l.clone())).collect::<Vec<_>>()
                        == b.options().filter(|(n, _)| **n != 12).map(|(n, l)| (*n, l.clone())).collect::<Vec<_>>();
                    if !others_same {
                        rep.violation("apply-changed-other-options", "options other than Content-Format changed".into(), wit);
                        continue;
                    }
                    rep.count("error_applied");
                    rep.distinct(0xE000_0000 + crate::rng::fnv(name.as_bytes()) % 100_000 * 16 + typ as u64 * 4 + pre_cf as u64);
                }
            }
        }
    }
}
