//! clvlib — runtime monitors for coap-lite (see /verif/DESIGN.md).

pub mod accessors;
pub mod alloc_count;
#[cfg(feature = "std")]
pub mod blockclient;
#[cfg(feature = "std")]
pub mod blocktransfer;
#[cfg(feature = "std")]
pub mod blockval;
#[cfg(feature = "std")]
pub mod expiry;
#[cfg(feature = "std")]
pub mod hostile;
#[cfg(feature = "std")]
pub mod isolation;
pub mod codec;
pub mod ctx;
pub mod glue;
pub mod linkfmt;
pub mod obsmodel;
pub mod panicwatch;
pub mod optval;
pub mod refcodec;
pub mod registry;
pub mod report;
pub mod respcorr;
pub mod rng;
pub mod vclock;

#[global_allocator]
static GLOBAL: alloc_count::Counting = alloc_count::Counting;

/// Run the monitor for `ctx.prop`; false when the property id is unknown.
pub fn dispatch(ctx: &mut ctx::Ctx) -> bool {
    match ctx.prop.as_str() {
        "C01" => codec::run_c01(ctx),
        "C02" => codec::run_c02(ctx),
        "C03" => codec::run_c03(ctx),
        "C04" => codec::run_c04(ctx),
        "C05" => registry::run_c05(ctx),
        "C06" => optval::run_c06(ctx),
        "C07" => respcorr::run_c07(ctx),
        #[cfg(feature = "std")]
        "C08" => blocktransfer::run_c08(ctx),
        #[cfg(feature = "std")]
        "C09" => blocktransfer::run_c09(ctx),
        #[cfg(feature = "std")]
        "C10" => blocktransfer::run_c10(ctx),
        #[cfg(feature = "std")]
        "C11" => hostile::run_c11(ctx),
        #[cfg(feature = "std")]
        "C12" => isolation::run_c12(ctx),
        #[cfg(feature = "std")]
        "C13" => blockval::run_c13(ctx),
        #[cfg(feature = "std")]
        "C20" => expiry::run_c20(ctx),
        "C14" => obsmodel::run_observe(ctx, "C14"),
        "C15" => obsmodel::run_observe(ctx, "C15"),
        "C16" => linkfmt::run_c16(ctx),
        "C17" => linkfmt::run_c17(ctx),
        "C18" => linkfmt::run_c18(ctx),
        "C19" => accessors::run_c19(ctx),
        _ => return false,
    }
    true
}
