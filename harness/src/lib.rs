//! clvlib — runtime monitors for coap-lite (see /verif/DESIGN.md).

pub mod alloc_count;
pub mod codec;
pub mod ctx;
pub mod glue;
pub mod panicwatch;
pub mod refcodec;
pub mod report;
pub mod rng;
pub mod vclock;

#[global_allocator]
static GLOBAL: alloc_count::Counting = alloc_count::Counting;

/// Run the monitor for `ctx.prop`; false when the property id is unknown.
pub fn dispatch(ctx: &mut ctx::Ctx) -> bool {
    match ctx.prop.as_str() {
        "C01" => codec::run_c01(ctx),
        "C02" => codec::run_c02(ctx),
        "C03" => codec::run_c03(ctx),
        "C04" => codec::run_c04(ctx),
        _ => return false,
    }
    true
}
