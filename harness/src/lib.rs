//! clvlib — runtime monitors for coap-lite (see /verif/DESIGN.md).

pub mod accessors;
pub mod alloc_count;
#[cfg(feature = "std")]
pub mod blockval;
pub mod codec;
pub mod ctx;
pub mod glue;
pub mod linkfmt;
pub mod obsmodel;
pub mod panicwatch;
pub mod optval;
pub mod refcodec;
pub mod registry;
pub mod report;
pub mod respcorr;
pub mod rng;
pub mod vclock;

#[global_allocator]
static GLOBAL: alloc_count::Counting = alloc_count::Counting;

/// Run the monitor for `ctx.prop`; false when the property id is unknown.
pub fn dispatch(ctx: &mut ctx::Ctx) -> bool {
    match ctx.prop.as_str() {
        "C01" => codec::run_c01(ctx),
        "C02" => codec::run_c02(ctx),
        "C03" => codec::run_c03(ctx),
        "C04" => codec::run_c04(ctx),
        "C05" => registry::run_c05(ctx),
        "C06" => optval::run_c06(ctx),
        "C07" => respcorr::run_c07(ctx),
        #[cfg(feature = "std")]
        "C13" => blockval::run_c13(ctx),
        "C14" => obsmodel::run_observe(ctx, "C14"),
        "C15" => obsmodel::run_observe(ctx, "C15"),
        "C16" => linkfmt::run_c16(ctx),
        "C17" => linkfmt::run_c17(ctx),
        "C18" => linkfmt::run_c18(ctx),
        "C19" => accessors::run_c19(ctx),
        _ => return false,
    }
    true
}
