//! Virtual monotonic clock: the binary defines `clock_gettime` itself, forwarding to the raw
//! syscall and adding a controllable offset to CLOCK_MONOTONIC.  std is linked statically, so
//! `std::time::Instant::now()` (used by lru_time_cache) binds to this symbol.  This is delay
//! injection at the only point where time enters coap-lite.  Only compiled with feature
//! `vclock`, never under Miri or ASan.

use std::sync::atomic::{AtomicI64, Ordering::SeqCst};

static OFFSET_NS: AtomicI64 = AtomicI64::new(0);
/// when non-zero: the real monotonic reading (ns) at which time was frozen; while frozen the
/// clock only moves through `advance`, so histories with time in them are fully deterministic
static FROZEN_AT_NS: AtomicI64 = AtomicI64::new(0);

#[repr(C)]
pub struct Timespec {
    tv_sec: i64,
    tv_nsec: i64,
}

#[cfg(all(feature = "vclock", not(miri), target_os = "linux", target_arch = "x86_64"))]
#[no_mangle]
pub unsafe extern "C" fn clock_gettime(clk: i32, ts: *mut Timespec) -> i32 {
    let ret: i64;
    core::arch::asm!(
        "syscall",
        inlateout("rax") 228i64 => ret,
        in("rdi") clk as i64,
        in("rsi") ts,
        lateout("rcx") _,
        lateout("r11") _,
        options(nostack)
    );
    if ret != 0 {
        return -1;
    }
    if clk == 1 {
        // CLOCK_MONOTONIC
        let off = OFFSET_NS.load(SeqCst);
        let t = &mut *ts;
        let frozen = FROZEN_AT_NS.load(SeqCst);
        let real = if frozen != 0 { frozen } else { t.tv_sec * 1_000_000_000 + t.tv_nsec };
        let v = real + off;
        t.tv_sec = v / 1_000_000_000;
        t.tv_nsec = v % 1_000_000_000;
    }
    0
}

pub fn enabled() -> bool {
    cfg!(all(feature = "vclock", not(miri), target_os = "linux", target_arch = "x86_64"))
}

/// advance virtual time (never goes backwards)
pub fn advance(d: std::time::Duration) {
    OFFSET_NS.fetch_add(d.as_nanos() as i64, SeqCst);
}

#[cfg(all(feature = "vclock", not(miri), target_os = "linux", target_arch = "x86_64"))]
fn real_now_ns() -> i64 {
    // raw reading without the offset: temporarily compute from the interposed function
    let mut ts = Timespec { tv_sec: 0, tv_nsec: 0 };
    let frozen = FROZEN_AT_NS.load(SeqCst);
    if frozen != 0 {
        return frozen;
    }
    unsafe {
        clock_gettime(1, &mut ts);
    }
    ts.tv_sec * 1_000_000_000 + ts.tv_nsec - OFFSET_NS.load(SeqCst)
}

#[cfg(not(all(feature = "vclock", not(miri), target_os = "linux", target_arch = "x86_64")))]
fn real_now_ns() -> i64 {
    0
}

/// Freeze (true) or release (false) the virtual clock.  Frozen: `Instant::now()` only moves by
/// `advance`.  Released: real time flows again, continuing from the frozen reading (time never
/// goes backwards).
pub fn set_frozen(on: bool) {
    if !enabled() {
        return;
    }
    let cur = FROZEN_AT_NS.load(SeqCst);
    if on && cur == 0 {
        let now = real_now_ns();
        FROZEN_AT_NS.store(now.max(1), SeqCst);
    } else if !on && cur != 0 {
        FROZEN_AT_NS.store(0, SeqCst);
        let now = real_now_ns();
        // continue from the frozen reading: drop the real time that passed while frozen
        OFFSET_NS.fetch_sub(now - cur, SeqCst);
    }
}

pub fn offset_ns() -> i64 {
    OFFSET_NS.load(SeqCst)
}

/// self-test: returns true when Instant really follows the virtual offset
pub fn selftest() -> bool {
    if !enabled() {
        return false;
    }
    let a = std::time::Instant::now();
    advance(std::time::Duration::from_secs(1000));
    let b = std::time::Instant::now();
    let d = b.duration_since(a);
    let follows = d >= std::time::Duration::from_secs(1000) && d < std::time::Duration::from_secs(1001);
    // frozen: two readings with real work in between are identical, advance moves exactly
    set_frozen(true);
    let c = std::time::Instant::now();
    let mut x = 0u64;
    for i in 0..200_000u64 {
        x = x.wrapping_mul(31).wrapping_add(i);
    }
    std::hint::black_box(x);
    let e = std::time::Instant::now();
    advance(std::time::Duration::from_millis(7));
    let f = std::time::Instant::now();
    set_frozen(false);
    let g = std::time::Instant::now();
    follows && e == c && f.duration_since(e) == std::time::Duration::from_millis(7) && g >= f
}
