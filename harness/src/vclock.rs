//! Virtual monotonic clock: the binary defines `clock_gettime` itself, forwarding to the raw
//! syscall and adding a controllable offset to CLOCK_MONOTONIC.  std is linked statically, so
//! `std::time::Instant::now()` (used by lru_time_cache) binds to this symbol.  This is delay
//! injection at the only point where time enters coap-lite.  Only compiled with feature
//! `vclock`, never under Miri or ASan.

use std::sync::atomic::{AtomicI64, Ordering::SeqCst};

static OFFSET_NS: AtomicI64 = AtomicI64::new(0);

#[repr(C)]
pub struct Timespec {
    tv_sec: i64,
    tv_nsec: i64,
}

#[cfg(all(feature = "vclock", not(miri), target_os = "linux", target_arch = "x86_64"))]
#[no_mangle]
pub unsafe extern "C" fn clock_gettime(clk: i32, ts: *mut Timespec) -> i32 {
    let ret: i64;
    core::arch::asm!(
        "syscall",
        inlateout("rax") 228i64 => ret,
        in("rdi") clk as i64,
        in("rsi") ts,
        lateout("rcx") _,
        lateout("r11") _,
        options(nostack)
    );
    if ret != 0 {
        return -1;
    }
    if clk == 1 {
        // CLOCK_MONOTONIC
        let off = OFFSET_NS.load(SeqCst);
        let t = &mut *ts;
        let mut ns = t.tv_nsec + off % 1_000_000_000;
        let mut s = t.tv_sec + off / 1_000_000_000;
        if ns >= 1_000_000_000 {
            ns -= 1_000_000_000;
            s += 1;
        }
        t.tv_sec = s;
        t.tv_nsec = ns;
    }
    0
}

pub fn enabled() -> bool {
    cfg!(all(feature = "vclock", not(miri), target_os = "linux", target_arch = "x86_64"))
}

/// advance virtual time (never goes backwards)
pub fn advance(d: std::time::Duration) {
    OFFSET_NS.fetch_add(d.as_nanos() as i64, SeqCst);
}

pub fn offset_ns() -> i64 {
    OFFSET_NS.load(SeqCst)
}

/// self-test: returns true when Instant really follows the virtual offset
pub fn selftest() -> bool {
    if !enabled() {
        return false;
    }
    let a = std::time::Instant::now();
    advance(std::time::Duration::from_secs(1000));
    let b = std::time::Instant::now();
    let d = b.duration_since(a);
    d >= std::time::Duration::from_secs(1000) && d < std::time::Duration::from_secs(1001)
}
