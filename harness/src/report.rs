//! Shard report: what a monitor observed, written as JSON for run.py to merge.

use std::collections::{BTreeMap, BTreeSet};
use std::fmt::Write as _;

pub const MAX_VIOLATIONS_KEPT: usize = 40;
pub const MAX_SAMPLES: usize = 12;
pub const MAX_DISTINCT_EMITTED: usize = 60_000;

#[derive(Clone, Debug)]
pub struct Violation {
    /// stable signature: what failed (used for known-finding matching); no run-specific numbers
    pub sig: String,
    /// human readable detail of this instance
    pub detail: String,
    /// the failing input / history, enough to replay
    pub witness: String,
}

#[derive(Default)]
pub struct Report {
    pub property: String,
    pub lane: String,
    pub evaluations: u64,
    pub counters: BTreeMap<String, u64>,
    pub buckets: BTreeMap<String, u64>,
    pub distinct: BTreeSet<u64>,
    pub samples: Vec<String>,
    pub violations: Vec<Violation>,
    pub viol_counts: BTreeMap<String, u64>,
    /// coverage floors: (counter-or-bucket name, minimum); unmet => inconclusive
    pub floors: Vec<(String, u64)>,
    pub exhaustive: bool,
    pub notes: Vec<String>,
    pub states: BTreeSet<u64>,
    /// distinct non-trivial cases counted exactly because the shard enumerates a partition of a
    /// finite space (never double counted across shards of one lane)
    pub disjoint: u64,
}

impl Report {
    pub fn new(property: &str, lane: &str) -> Report {
        Report { property: property.to_string(), lane: lane.to_string(), ..Default::default() }
    }
    #[inline]
    pub fn eval(&mut self) {
        self.evaluations += 1;
    }
    #[inline]
    pub fn count(&mut self, name: &str) {
        self.add(name, 1);
    }
    pub fn add(&mut self, name: &str, n: u64) {
        if let Some(c) = self.counters.get_mut(name) {
            *c += n;
        } else {
            self.counters.insert(name.to_string(), n);
        }
    }
    pub fn bucket(&mut self, name: &str) {
        if let Some(c) = self.buckets.get_mut(name) {
            *c += 1;
        } else {
            self.buckets.insert(name.to_string(), 1);
        }
    }
    #[inline]
    pub fn distinct(&mut self, sig: u64) {
        self.distinct.insert(sig);
    }
    #[inline]
    pub fn distinct_enumerated(&mut self) {
        self.disjoint += 1;
    }
    #[inline]
    pub fn state(&mut self, sig: u64) {
        self.states.insert(sig);
    }
    pub fn sample<F: FnOnce() -> String>(&mut self, f: F) {
        if self.samples.len() < MAX_SAMPLES {
            self.samples.push(f());
        }
    }
    /// sample roughly every `every`-th evaluation until full
    pub fn sample_every<F: FnOnce() -> String>(&mut self, every: u64, f: F) {
        if (self.samples.len() < MAX_SAMPLES && self.evaluations % every.max(1) == 0)
            || (self.samples.len() < 3 && self.evaluations >= 8 && self.evaluations.is_power_of_two())
        {
            self.samples.push(f());
        }
    }
    pub fn floor(&mut self, name: &str, min: u64) {
        self.floors.push((name.to_string(), min));
    }
    pub fn note(&mut self, s: &str) {
        if !self.notes.iter().any(|n| n == s) {
            self.notes.push(s.to_string());
        }
    }
    pub fn violation(&mut self, sig: &str, detail: String, witness: String) {
        let c = self.viol_counts.entry(sig.to_string()).or_insert(0);
        *c += 1;
        // keep the first few per signature, bounded overall
        if *c <= 3 && self.violations.len() < MAX_VIOLATIONS_KEPT {
            let cx = crate::ctx::last_context();
            let witness = if cx.is_empty() { witness } else { format!("{}  [{}]", witness, cx) };
            self.violations.push(Violation { sig: sig.to_string(), detail, witness });
        }
    }
    pub fn n_violations(&self) -> u64 {
        self.viol_counts.values().sum()
    }

    pub fn to_json(&self) -> String {
        let mut s = String::new();
        s.push('{');
        kv_str(&mut s, "property", &self.property);
        s.push(',');
        kv_str(&mut s, "lane", &self.lane);
        s.push(',');
        let _ = write!(s, "\"evaluations\":{},\"exhaustive\":{},", self.evaluations, self.exhaustive);
        s.push_str("\"counters\":");
        map_u64(&mut s, &self.counters);
        s.push_str(",\"buckets\":");
        map_u64(&mut s, &self.buckets);
        s.push_str(",\"viol_counts\":");
        map_u64(&mut s, &self.viol_counts);
        let _ = write!(s, ",\"distinct_disjoint\":{},\"distinct_count\":{},\"distinct\":[", self.disjoint, self.distinct.len());
        for (i, d) in self.distinct.iter().take(MAX_DISTINCT_EMITTED).enumerate() {
            if i > 0 {
                s.push(',');
            }
            let _ = write!(s, "\"{:x}\"", d);
        }
        let _ = write!(s, "],\"states_count\":{},\"states\":[", self.states.len());
        for (i, d) in self.states.iter().take(MAX_DISTINCT_EMITTED).enumerate() {
            if i > 0 {
                s.push(',');
            }
            let _ = write!(s, "\"{:x}\"", d);
        }
        s.push_str("],\"samples\":[");
        for (i, x) in self.samples.iter().enumerate() {
            if i > 0 {
                s.push(',');
            }
            jstr(&mut s, x);
        }
        s.push_str("],\"notes\":[");
        for (i, x) in self.notes.iter().enumerate() {
            if i > 0 {
                s.push(',');
            }
            jstr(&mut s, x);
        }
        s.push_str("],\"floors\":[");
        for (i, (n, m)) in self.floors.iter().enumerate() {
            if i > 0 {
                s.push(',');
            }
            s.push('[');
            jstr(&mut s, n);
            let _ = write!(s, ",{}]", m);
        }
        s.push_str("],\"violations\":[");
        for (i, v) in self.violations.iter().enumerate() {
            if i > 0 {
                s.push(',');
            }
            s.push('{');
            kv_str(&mut s, "sig", &v.sig);
            s.push(',');
            kv_str(&mut s, "detail", &v.detail);
            s.push(',');
            kv_str(&mut s, "witness", &v.witness);
            s.push('}');
        }
        s.push_str("]}");
        s
    }
}

fn map_u64(s: &mut String, m: &BTreeMap<String, u64>) {
    s.push('{');
    for (i, (k, v)) in m.iter().enumerate() {
        if i > 0 {
            s.push(',');
        }
        jstr(s, k);
        let _ = write!(s, ":{}", v);
    }
    s.push('}');
}

fn kv_str(s: &mut String, k: &str, v: &str) {
    jstr(s, k);
    s.push(':');
    jstr(s, v);
}

pub fn jstr(s: &mut String, v: &str) {
    s.push('"');
    for c in v.chars() {
        match c {
            '"' => s.push_str("\\\""),
            '\\' => s.push_str("\\\\"),
            '\n' => s.push_str("\\n"),
            '\r' => s.push_str("\\r"),
            '\t' => s.push_str("\\t"),
            c if (c as u32) < 0x20 => {
                let _ = write!(s, "\\u{:04x}", c as u32);
            }
            c => s.push(c),
        }
    }
    s.push('"');
}
