//! Small deterministic PRNG (splitmix64 seeding + xoshiro256**).  No external crate.

#[derive(Clone, Debug)]
pub struct Rng {
    s: [u64; 4],
}

fn splitmix(x: &mut u64) -> u64 {
    *x = x.wrapping_add(0x9E37_79B9_7F4A_7C15);
    let mut z = *x;
    z = (z ^ (z >> 30)).wrapping_mul(0xBF58_476D_1CE4_E5B9);
    z = (z ^ (z >> 27)).wrapping_mul(0x94D0_49BB_1331_11EB);
    z ^ (z >> 31)
}

/// Mix several integers into one seed (stable across runs and platforms).
pub fn mix(parts: &[u64]) -> u64 {
    let mut h: u64 = 0xcbf2_9ce4_8422_2325;
    for p in parts {
        let mut x = *p ^ h;
        h = splitmix(&mut x) ^ h.rotate_left(17);
    }
    h
}

impl Rng {
    pub fn new(seed: u64) -> Rng {
        let mut x = seed;
        let s = [splitmix(&mut x), splitmix(&mut x), splitmix(&mut x), splitmix(&mut x)];
        Rng { s }
    }
    pub fn next_u64(&mut self) -> u64 {
        let r = self.s[1].wrapping_mul(5).rotate_left(7).wrapping_mul(9);
        let t = self.s[1] << 17;
        self.s[2] ^= self.s[0];
        self.s[3] ^= self.s[1];
        self.s[1] ^= self.s[2];
        self.s[0] ^= self.s[3];
        self.s[2] ^= t;
        self.s[3] = self.s[3].rotate_left(45);
        r
    }
    /// uniform in 0..n (n > 0)
    pub fn below(&mut self, n: u64) -> u64 {
        debug_assert!(n > 0);
        // multiply-shift; bias negligible for our n
        ((self.next_u64() as u128 * n as u128) >> 64) as u64
    }
    pub fn usize_below(&mut self, n: usize) -> usize {
        self.below(n as u64) as usize
    }
    /// uniform in lo..=hi
    pub fn range(&mut self, lo: u64, hi: u64) -> u64 {
        lo + self.below(hi - lo + 1)
    }
    pub fn urange(&mut self, lo: usize, hi: usize) -> usize {
        self.range(lo as u64, hi as u64) as usize
    }
    pub fn chance(&mut self, num: u64, den: u64) -> bool {
        self.below(den) < num
    }
    pub fn bool(&mut self) -> bool {
        self.next_u64() & 1 == 1
    }
    pub fn pick<'a, T>(&mut self, xs: &'a [T]) -> &'a T {
        &xs[self.usize_below(xs.len())]
    }
    pub fn byte(&mut self) -> u8 {
        self.next_u64() as u8
    }
    pub fn bytes(&mut self, n: usize) -> Vec<u8> {
        let mut v = Vec::with_capacity(n);
        while v.len() < n {
            let x = self.next_u64().to_le_bytes();
            let take = (n - v.len()).min(8);
            v.extend_from_slice(&x[..take]);
        }
        v
    }
    pub fn shuffle<T>(&mut self, xs: &mut [T]) {
        for i in (1..xs.len()).rev() {
            let j = self.usize_below(i + 1);
            xs.swap(i, j);
        }
    }
}

pub fn hex(b: &[u8]) -> String {
    let mut s = String::with_capacity(b.len() * 2);
    for x in b {
        s.push_str(&format!("{:02x}", x));
    }
    s
}

/// hex with long runs elided (for samples / witnesses of big inputs)
pub fn hex_short(b: &[u8]) -> String {
    if b.len() <= 96 {
        hex(b)
    } else {
        format!("{}..(+{} bytes)..{}", hex(&b[..64]), b.len() - 80, hex(&b[b.len() - 16..]))
    }
}

pub fn unhex(s: &str) -> Option<Vec<u8>> {
    let s: Vec<u8> = s.bytes().filter(|c| !c.is_ascii_whitespace()).collect();
    if s.len() % 2 != 0 {
        return None;
    }
    let mut out = Vec::with_capacity(s.len() / 2);
    for p in s.chunks(2) {
        let h = (p[0] as char).to_digit(16)?;
        let l = (p[1] as char).to_digit(16)?;
        out.push((h * 16 + l) as u8);
    }
    Some(out)
}

/// FNV-1a 64 for signatures / distinct counting
pub fn fnv(data: &[u8]) -> u64 {
    let mut h: u64 = 0xcbf2_9ce4_8422_2325;
    for b in data {
        h ^= *b as u64;
        h = h.wrapping_mul(0x0000_0100_0000_01b3);
    }
    h
}
