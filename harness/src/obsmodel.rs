//! C14 / C15 — Observe subject: step-by-step comparison with a sequential reference model.
//!
//! The model is the property text: replace-in-place on the same endpoint (token replaced,
//! count cleared, pending none), append otherwise; deregister needs endpoint, token and path;
//! a round on a path with an entry => every observer pending=mid, count+1 iff confirmable,
//! drop iff count > limit; ack(endpoint, mid) resets that endpoint's observers whose pending
//! id equals mid, in every resource; a round on an unknown path creates nothing.

use crate::ctx::Ctx;
use crate::glue::mtype_num;
use crate::optval::min_be;
use crate::panicwatch::{guard, set_case_str};
use crate::report::Report;
use crate::rng::{fnv, hex, Rng};
use coap_lite::{create_notification, CoapOption, CoapRequest, Packet, Subject};
use std::collections::BTreeMap;
use std::fmt;

#[derive(Clone, Debug, PartialEq)]
pub struct Ep(pub u8);

impl fmt::Display for Ep {
    fn fmt(&self, f: &mut fmt::Formatter) -> fmt::Result {
        write!(f, "ep{}", self.0)
    }
}

#[derive(Clone, Debug, PartialEq)]
pub enum Op {
    Register { ep: u8, token: Vec<u8>, path: String },
    Deregister { ep: u8, token: Vec<u8>, path: String },
    Changed { path: String, mid: u16, con: bool },
    Ack { ep: u8, mid: u16 },
    /// an acknowledgement whose packet carries a token (the observer's, a stale or foreign one) and,
    /// when `proper`, is shaped like a real ACK (type Acknowledgement, code 0.00)
    AckWith { ep: u8, mid: u16, token: Vec<u8>, proper: bool },
    /// the application reconfigures the limit while observers are registered
    SetLimit(u8),
}

impl Op {
    fn short(&self) -> String {
        match self {
            Op::Register { ep, token, path } => format!("reg(ep{},{},{})", ep, hex(token), path),
            Op::Deregister { ep, token, path } => format!("dereg(ep{},{},{})", ep, hex(token), path),
            Op::Changed { path, mid, con } => format!("{}({},mid{})", if *con { "CON" } else { "NON" }, path, mid),
            Op::Ack { ep, mid } => format!("ack(ep{},mid{})", ep, mid),
            Op::AckWith { ep, mid, token, proper } => format!("ack(ep{},mid{},token {}{})", ep, mid, hex(token), if *proper { ",ACK 0.00" } else { "" }),
            Op::SetLimit(n) => format!("set_limit({})", n),
        }
    }
}

pub fn history_text(limit: u8, ops: &[Op]) -> String {
    format!("limit={} : {}", limit, ops.iter().map(|o| o.short()).collect::<Vec<_>>().join(" "))
}

#[derive(Clone, Debug, PartialEq)]
struct MObs {
    ep: u8,
    token: Vec<u8>,
    unack: u32,
    pending: Option<u16>,
}

#[derive(Clone, Debug, Default)]
struct Model {
    res: BTreeMap<String, Vec<MObs>>,
    limit: u32,
    /// C14 mode: the registry clauses only.  The model does not decide evictions itself; after a
    /// round it adopts which observers the implementation kept (eviction timing is C15's).
    follow_evictions: bool,
}

impl Model {
    fn apply(&mut self, op: &Op) {
        match op {
            Op::Register { ep, token, path } => {
                let l = self.res.entry(path.clone()).or_default();
                let fresh = MObs { ep: *ep, token: token.clone(), unack: 0, pending: None };
                if let Some(o) = l.iter_mut().find(|o| o.ep == *ep) {
                    *o = fresh;
                } else {
                    l.push(fresh);
                }
            }
            Op::Deregister { ep, token, path } => {
                if let Some(l) = self.res.get_mut(path) {
                    if let Some(i) = l.iter().position(|o| o.ep == *ep && &o.token == token) {
                        l.remove(i);
                    }
                }
            }
            Op::Changed { path, mid, con } => {
                let limit = self.limit;
                if let Some(l) = self.res.get_mut(path) {
                    for o in l.iter_mut() {
                        o.pending = Some(*mid);
                        if *con {
                            o.unack += 1;
                        }
                    }
                    if !self.follow_evictions {
                        l.retain(|o| o.unack <= limit);
                    }
                }
            }
            Op::SetLimit(n) => self.limit = *n as u32,
            Op::Ack { ep, mid } | Op::AckWith { ep, mid, .. } => {
                for l in self.res.values_mut() {
                    for o in l.iter_mut() {
                        if o.ep == *ep && o.pending == Some(*mid) {
                            o.unack = 0;
                            o.pending = None;
                        }
                    }
                }
            }
        }
    }
    fn hash(&self) -> u64 {
        let mut v: Vec<u8> = vec![self.limit as u8];
        for (p, l) in &self.res {
            if l.is_empty() {
                continue;
            }
            v.extend_from_slice(p.as_bytes());
            v.push(0xfe);
            for o in l {
                v.push(o.ep);
                v.extend_from_slice(&o.token);
                v.push(0xfd);
                v.extend_from_slice(&(o.unack as u16).to_be_bytes());
                match o.pending {
                    Some(m) => {
                        v.push(1);
                        v.extend_from_slice(&m.to_be_bytes());
                    }
                    None => v.push(0),
                }
            }
            v.push(0xff);
        }
        fnv(&v)
    }
}

fn req(ep: u8, token: &[u8], path: &str, mid: u16) -> CoapRequest<Ep> {
    let mut p = Packet::new();
    // requests arrive as Confirmable or Non-confirmable messages (both are legal for a GET with Observe)
    if (ep as usize + token.len() + path.len()) % 2 == 1 {
        p.header.set_type(coap_lite::MessageType::NonConfirmable);
    }
    p.header.message_id = mid;
    p.set_token(token.to_vec());
    // Uri-Path segments verbatim ("/x" = an empty first segment followed by "x"): the resource name
    // a registration uses is then exactly `path`, as it is for a notification round
    if !path.is_empty() {
        for seg in path.split('/') {
            p.add_option(coap_lite::CoapOption::UriPath, seg.as_bytes().to_vec());
        }
    }
    CoapRequest::from_packet(p, Ep(ep))
}

fn apply_real(s: &mut Subject<Ep>, op: &Op) {
    match op {
        Op::Register { ep, token, path } => s.register(&req(*ep, token, path, 0)),
        Op::Deregister { ep, token, path } => s.deregister(&req(*ep, token, path, 0)),
        Op::Changed { path, mid, con } => s.resource_changed(path, *mid, *con),
        Op::Ack { ep, mid } => s.acknowledge(&req(*ep, &[], "", *mid)),
        Op::AckWith { ep, mid, token, proper } => {
            let mut q = req(*ep, token, "", *mid);
            if *proper {
                q.message.header.set_type(coap_lite::MessageType::Acknowledgement);
                q.message.header.code = coap_lite::MessageClass::Empty;
            }
            s.acknowledge(&q)
        }
        Op::SetLimit(n) => s.set_unacknowledged_limit(*n),
    }
}

/// what the public API (plus hooks when present) shows for one resource
#[derive(Debug, PartialEq, Clone)]
struct Seen {
    seq: Option<u32>,
    observers: Vec<(u8, Vec<u8>, Option<u64>, Option<Option<u16>>)>,
}

fn observe_real(s: &Subject<Ep>, path: &str) -> Result<Seen, String> {
    let r = s.get_resource(path);
    let via_list = s.get_resource_observers(path);
    match (r, via_list) {
        (None, None) => Ok(Seen { seq: None, observers: vec![] }),
        (Some(r), Some(list)) => {
            let mut observers = Vec::new();
            for o in r.observers.iter() {
                #[cfg(has_observe_hook)]
                let (u, p) = (Some(o.verif_unacknowledged()), Some(o.verif_pending_mid()));
                #[cfg(not(has_observe_hook))]
                let (u, p) = (None, None);
                observers.push((o.endpoint.0, o.token.clone(), u, p));
            }
            let l2: Vec<(u8, Vec<u8>)> = list.iter().map(|o| (o.endpoint.0, o.token.clone())).collect();
            let l1: Vec<(u8, Vec<u8>)> = observers.iter().map(|o| (o.0, o.1.clone())).collect();
            if l1 != l2 {
                return Err(format!("get_resource and get_resource_observers disagree: {:?} vs {:?}", l1, l2));
            }
            Ok(Seen { seq: Some(r.sequence), observers })
        }
        (a, b) => Err(format!("get_resource is {} but get_resource_observers is {}", if a.is_some() { "Some" } else { "None" }, if b.is_some() { "Some" } else { "None" })),
    }
}

pub struct Runner<'a> {
    pub paths: &'a [String],
    pub check_notifications: bool,
}

thread_local! {
    /// the model as it stands after the last history that ran to its end without a disagreement
    /// (with the evictions it adopted on the way)
    static LAST_MODEL: std::cell::RefCell<Option<Model>> = const { std::cell::RefCell::new(None) };
}

/// Run one history against the real Subject and the model, comparing after every step.
/// Returns Err((signature, detail, step)) at the first disagreement.
fn run_history(rep: &mut Report, limit: u8, ops: &[Op], paths: &[String], check_notifications: bool, which: &str) -> Result<(), (String, String, usize)> {
    LAST_MODEL.with(|l| *l.borrow_mut() = None);
    let mut s: Subject<Ep> = Subject::default();
    s.set_unacknowledged_limit(limit);
    let follow = which == "C14";
    let mut m = Model { res: BTreeMap::new(), limit: limit as u32, follow_evictions: follow };
    let mut last_seq: BTreeMap<String, u32> = BTreeMap::new();
    for (step, op) in ops.iter().enumerate() {
        // before
        let before: Option<(Option<u32>, usize)> = match op {
            Op::Changed { path, .. } => {
                let seen = observe_real(&s, path).map_err(|e| ("api-inconsistent".to_string(), e, step))?;
                Some((seen.seq, m.res.get(path).map(|l| l.len()).unwrap_or(0)))
            }
            _ => None,
        };
        if let Err(p) = guard(|| apply_real(&mut s, op)) {
            return Err((p.sig(), format!("{} during {}", p.text(), op.short()), step));
        }
        m.apply(op);
        if follow {
            if let Op::Changed { path, .. } = op {
                // adopt the implementation's evictions on this resource: observers may only disappear
                let seen = observe_real(&s, path).map_err(|e| ("api-inconsistent".to_string(), e, step))?;
                if let Some(l) = m.res.get_mut(path) {
                    let kept: Vec<u8> = seen.observers.iter().map(|o| o.0).collect();
                    let before_n = l.len();
                    l.retain(|o| kept.contains(&o.ep));
                    if l.len() != before_n {
                        rep.count("evictions_adopted_(C15_decides_their_timing)");
                    }
                }
            }
        }
        rep.state(m.hash());
        // observer lists of every path, in order, with tokens (+ counters through the hook)
        for path in paths {
            let seen = observe_real(&s, path).map_err(|e| ("api-inconsistent".to_string(), e, step))?;
            let want: Vec<MObs> = m.res.get(path).cloned().unwrap_or_default();
            let got_list: Vec<(u8, Vec<u8>)> = seen.observers.iter().map(|o| (o.0, o.1.clone())).collect();
            let want_list: Vec<(u8, Vec<u8>)> = want.iter().map(|o| (o.ep, o.token.clone())).collect();
            if got_list != want_list {
                if let Op::SetLimit(_) = op {
                    // observers whose count exceeds a LOWERED limit may be dropped right away or at the next
                    // round on their resource (the model does the latter); anything else is a disagreement
                    let lim = m.limit;
                    let without: Vec<(u8, Vec<u8>)> = want.iter().filter(|o| o.unack <= lim).map(|o| (o.ep, o.token.clone())).collect();
                    if got_list == without {
                        if let Some(l) = m.res.get_mut(path) {
                            l.retain(|o| o.unack <= lim);
                        }
                        rep.count("evictions_at_set_limit_adopted");
                        continue;
                    }
                }
                let kind = classify_list_diff(op, &got_list, &want_list, which);
                return Err((kind, format!("after {} resource {:?} lists {:?}, model says {:?}", op.short(), path, got_list, want_list), step));
            }
            for (g, w) in seen.observers.iter().zip(want.iter()) {
                if follow {
                    // registry clause: (re-)registration clears the count and the pending id
                    if let Op::Register { ep, path: rp, .. } = op {
                        if *ep == g.0 && rp == path && (g.2.unwrap_or(0) != 0 || g.3.unwrap_or(None).is_some()) {
                            return Err(("register-does-not-clear-count".into(), format!("after {} observer ep{} on {:?} has count {:?} pending {:?}", op.short(), g.0, path, g.2, g.3), step));
                        }
                    }
                    continue;
                }
                if let Some(u) = g.2 {
                    if u != w.unack as u64 {
                        return Err(("unacknowledged-count".into(), format!("after {} observer ep{} on {:?} has count {} (hook), model says {}", op.short(), g.0, path, u, w.unack), step));
                    }
                }
                if let Some(p) = g.3 {
                    if p != w.pending {
                        return Err(("pending-message-id".into(), format!("after {} observer ep{} on {:?} has pending {:?} (hook), model says {:?}", op.short(), g.0, path, p, w.pending), step));
                    }
                }
            }
        }
        // sequence: +1 exactly on an observed resource, never backwards
        if let (Op::Changed { path, mid, con }, Some((seq_before, n_before))) = (op, before) {
            let seen = observe_real(&s, path).map_err(|e| ("api-inconsistent".to_string(), e, step))?;
            if n_before > 0 {
                let b = seq_before.unwrap_or(0);
                if seen.seq != Some(b.wrapping_add(1)) {
                    return Err(("sequence-not-incremented-by-one".into(), format!("{}: sequence {:?} -> {:?} on an observed resource", op.short(), seq_before, seen.seq), step));
                }
                rep.count("rounds_on_observed_resources");
            } else if m.res.get(path).is_none() {
                // never registered: nothing may be created
                if !seen.observers.is_empty() {
                    return Err(("round-created-observers".into(), format!("{} on an unobserved path created {:?}", op.short(), seen.observers), step));
                }
                rep.count("rounds_on_unknown_paths");
            }
            if let (Some(prev), Some(now)) = (last_seq.get(path), seen.seq) {
                if now < *prev {
                    return Err(("sequence-went-backwards".into(), format!("{}: sequence {} after {}", op.short(), now, prev), step));
                }
            }
            if let Some(now) = seen.seq {
                last_seq.insert(path.clone(), now);
            }
            if check_notifications {
                for o in seen.observers.iter() {
                    let seq = seen.seq.unwrap_or(0);
                    check_notification(rep, *mid, &o.1, seq, &[0xA5, step as u8], *con).map_err(|e| ("notification".to_string(), e, step))?;
                }
            }
        }
    }
    LAST_MODEL.with(|l| *l.borrow_mut() = Some(m));
    Ok(())
}

fn classify_list_diff(op: &Op, got: &[(u8, Vec<u8>)], want: &[(u8, Vec<u8>)], which: &str) -> String {
    let base = match op {
        Op::Register { .. } => "register",
        Op::Deregister { .. } => "deregister",
        Op::Changed { con: true, .. } => "eviction-after-confirmable-round",
        Op::Changed { con: false, .. } => "eviction-after-nonconfirmable-round",
        Op::Ack { .. } | Op::AckWith { .. } => "acknowledge",
        Op::SetLimit(_) => "set-limit",
    };
    let dir = if got.len() > want.len() {
        "observer-kept"
    } else if got.len() < want.len() {
        "observer-lost"
    } else {
        "order-or-token"
    };
    format!("{}:{}:{}", which, base, dir)
}

fn check_notification(rep: &mut Report, mid: u16, token: &[u8], seq: u32, payload: &[u8], con: bool) -> Result<(), String> {
    let p = match guard(|| create_notification(mid, token.to_vec(), seq, payload.to_vec(), con)) {
        Err(p) => return Err(p.text()),
        Ok(p) => p,
    };
    let bytes = match guard(|| p.to_bytes()) {
        Ok(Ok(b)) => b,
        other => return Err(format!("notification does not encode: {:?}", other.map_err(|p| p.text()).map(|r| r.map(|b| b.len())))),
    };
    let q = Packet::from_bytes(&bytes).map_err(|e| format!("notification does not decode: {:?}", e))?;
    let want_type = if con { 0 } else { 1 };
    let obs: Vec<Vec<u8>> = q.get_option(CoapOption::Observe).map(|l| l.iter().cloned().collect()).unwrap_or_default();
    if q.get_token() != token || q.header.message_id != mid || mtype_num(q.header.get_type()) != want_type || q.payload != payload || q.header.get_version() != 1 || u8::from(q.header.code) != 0x45 {
        return Err(format!("notification fields: token {} mid {} type {} payload {} code {}", hex(q.get_token()), q.header.message_id, mtype_num(q.header.get_type()), hex(&q.payload), q.header.code));
    }
    if obs != vec![min_be(seq as u64)] {
        return Err(format!("Observe option {:?} for sequence {}", obs, seq));
    }
    if p.get_observe_value() != Some(Ok(seq)) {
        return Err(format!("get_observe_value {:?} for sequence {}", p.get_observe_value(), seq));
    }
    rep.count("notifications_checked");
    Ok(())
}

// ------------------------------------------------------------------------------------------
// hook-free probe of the private counter: replay the history into a fresh subject, then
// run confirmable rounds with a fresh message id until the observer disappears.

fn probe_remaining(limit: u8, ops: &[Op], path: &str, ep: u8) -> Option<u32> {
    let mut s: Subject<Ep> = Subject::default();
    s.set_unacknowledged_limit(limit);
    for op in ops {
        apply_real(&mut s, op);
    }
    let present = |s: &Subject<Ep>| s.get_resource(path).map(|r| r.observers.iter().any(|o| o.endpoint.0 == ep)).unwrap_or(false);
    if !present(&s) {
        return None;
    }
    let mut rounds = 0u32;
    while present(&s) && rounds < 600 {
        s.resource_changed(path, 0xEEEE, true);
        rounds += 1;
    }
    Some(rounds)
}

// ------------------------------------------------------------------------------------------

fn dfs_alphabet() -> (Vec<Op>, Vec<String>) {
    // two resources whose names differ only by a leading empty segment, plus one never registered
    let paths = vec!["a".to_string(), "/a".to_string(), "never".to_string()];
    let toks = [vec![1u8], vec![2u8, 2]];
    let mut ops = Vec::new();
    for ep in 0..2u8 {
        for t in toks.iter() {
            for p in paths.iter().take(2) {
                ops.push(Op::Register { ep, token: t.clone(), path: p.clone() });
                ops.push(Op::Deregister { ep, token: t.clone(), path: p.clone() });
            }
        }
    }
    // the two message ids differ, but agree modulo every small power of two up to 64
    for p in paths.iter() {
        for mid in [10u16, 74] {
            for con in [true, false] {
                ops.push(Op::Changed { path: p.clone(), mid, con });
            }
        }
    }
    for ep in 0..2u8 {
        for mid in [10u16, 74] {
            ops.push(Op::Ack { ep, mid });
        }
    }
    (ops, paths)
}

/// tokens that are easy to confuse once compared through anything but their bytes: one random
/// base token plus its prefix, extensions by a leading / trailing 0x00, 0x01, 0x80, 0xff, zero
/// padding to eight bytes, the last byte flipped, the reverse
fn token_family(r: &mut Rng) -> Vec<Vec<u8>> {
    let l = r.usize_below(9);
    let base = if r.bool() { r.bytes(l) } else { (0..l as u8).map(|i| i + 1).collect() };
    let mut fam = vec![base.clone()];
    if !base.is_empty() {
        fam.push(base[..base.len() - 1].to_vec());
        fam.push(base[1..].to_vec());
        let mut f = base.clone();
        *f.last_mut().unwrap() ^= 0x80;
        fam.push(f);
        let mut rev = base.clone();
        rev.reverse();
        fam.push(rev);
    }
    if base.len() < 8 {
        for b in [0u8, 1, 0x80, 0xff] {
            let mut lead = vec![b];
            lead.extend_from_slice(&base);
            fam.push(lead);
            let mut trail = base.clone();
            trail.push(b);
            fam.push(trail);
        }
        let mut padded = base.clone();
        padded.resize(8, 0);
        fam.push(padded);
        let mut padded_front = vec![0u8; 8 - base.len()];
        padded_front.extend_from_slice(&base);
        fam.push(padded_front);
    }
    fam.push(vec![]);
    fam
}

/// For every token length 0..7 and every one-byte extension: register with one token of the pair,
/// deregister with the other (must change nothing), notify, deregister with the right one.
fn directed_token_pairs(rep: &mut Report, limit: u8, which: &str, is15: bool) {
    let paths = vec!["r".to_string(), "s".to_string()];
    for l in 0..=7usize {
        for variant in 0..2 {
            let t: Vec<u8> = if variant == 0 { (0..l as u8).map(|i| 0x10 + i).collect() } else { vec![0u8; l] };
            for b in [0u8, 1, 0x80, 0xff] {
                for front in [true, false] {
                    let mut longer = t.clone();
                    if front {
                        longer.insert(0, b);
                    } else {
                        longer.push(b);
                    }
                    for (a, c) in [(t.clone(), longer.clone()), (longer.clone(), t.clone())] {
                        let ops = vec![
                            Op::Register { ep: 1, token: a.clone(), path: "r".into() },
                            Op::Register { ep: 2, token: c.clone(), path: "r".into() },
                            Op::Changed { path: "r".into(), mid: 5, con: true },
                            Op::Deregister { ep: 1, token: c.clone(), path: "r".into() },
                            Op::Deregister { ep: 2, token: a.clone(), path: "r".into() },
                            Op::Changed { path: "r".into(), mid: 6, con: false },
                            Op::Register { ep: 1, token: c.clone(), path: "r".into() },
                            Op::Deregister { ep: 1, token: a.clone(), path: "r".into() },
                            Op::Changed { path: "r".into(), mid: 7, con: true },
                            Op::Deregister { ep: 1, token: c.clone(), path: "r".into() },
                            Op::Deregister { ep: 2, token: c.clone(), path: "r".into() },
                            Op::Changed { path: "r".into(), mid: 8, con: true },
                        ];
                        rep.eval();
                        match run_history(rep, limit, &ops, &paths, is15, which) {
                            Ok(()) => rep.count("token_pair_histories_held"),
                            Err((sig, detail, step)) => rep.violation(&sig, format!("step {}: {}", step, detail), history_text(limit, &ops[..=step.min(ops.len() - 1)])),
                        }
                    }
                }
            }
        }
    }
}

/// The limit is lowered while observers carry counts above the new value, then new endpoints
/// register (lists of exactly 4, 8, 16 observers included), old ones re-register, deregister,
/// acknowledge with all kinds of tokens - and only then the next round happens.
fn directed_limit_changes(rep: &mut Report, which: &str, is15: bool, level: u32) {
    let paths = vec!["r".to_string(), "s".to_string()];
    let sizes: &[u8] = if level == 0 { &[4] } else { &[1, 2, 3, 4, 5, 7, 8, 9, 16, 17] };
    for &n in sizes {
        for rounds in 1..=3u8 {
            for lo in 0..rounds {
                for variant in 0..4u8 {
                    let mut ops: Vec<Op> = Vec::new();
                    for e in 1..=n {
                        ops.push(Op::Register { ep: e, token: vec![e, 0x55], path: "r".into() });
                    }
                    ops.push(Op::Register { ep: 1, token: vec![1], path: "s".into() });
                    for k in 0..rounds {
                        ops.push(Op::Changed { path: "r".into(), mid: 100 + k as u16, con: true });
                    }
                    // some acknowledge the last round: with no token, their own, a foreign or a truncated one
                    for e in (1..=n).filter(|e| e % 3 == variant % 3) {
                        let tok = match (e + variant) % 4 {
                            0 => vec![],
                            1 => vec![e, 0x55],
                            2 => vec![0xEE; 8],
                            _ => vec![e],
                        };
                        ops.push(Op::AckWith { ep: e, mid: 100 + rounds as u16 - 1, token: tok, proper: e % 2 == 0 });
                    }
                    ops.push(Op::SetLimit(lo));
                    ops.push(Op::Register { ep: 200, token: vec![200], path: "r".into() });
                    if variant >= 1 {
                        ops.push(Op::Register { ep: 2.min(n), token: vec![9, 9], path: "r".into() });
                        ops.push(Op::Register { ep: 201, token: vec![], path: "r".into() });
                    }
                    if variant >= 2 {
                        ops.push(Op::Deregister { ep: 1, token: vec![1, 0x55], path: "r".into() });
                        ops.push(Op::Ack { ep: n, mid: 100 + rounds as u16 - 1 });
                    }
                    ops.push(Op::Changed { path: "r".into(), mid: 300, con: variant % 2 == 0 });
                    ops.push(Op::SetLimit(3));
                    ops.push(Op::Changed { path: "r".into(), mid: 301, con: true });
                    ops.push(Op::Changed { path: "s".into(), mid: 302, con: true });
                    rep.eval();
                    match run_history(rep, 3, &ops, &paths, is15, which) {
                        Ok(()) => rep.count("limit_change_histories_held"),
                        Err((sig, detail, step)) => rep.violation(&sig, format!("step {}: {}", step, detail), history_text(3, &ops[..=step.min(ops.len() - 1)])),
                    }
                }
            }
        }
    }
}

fn random_history(r: &mut Rng, len: usize, paths: &[String]) -> Vec<Op> {
    let fam = token_family(r);
    let fixed: [&[u8]; 4] = [&[], &[1], &[2, 2], &[1, 2, 3, 4, 5, 6, 7, 8]];
    let toks: Vec<&[u8]> = if r.bool() { fixed.to_vec() } else { (0..4).map(|_| r.pick(&fam).as_slice()).collect() };
    let mut ops = Vec::with_capacity(len);
    let neps = *r.pick(&[1u64, 2, 3, 6, 9, 17]);
    // message ids that collide under truncation / hashing (same low bits, same high byte, ...)
    let base = r.next_u64() as u16;
    let offsets = [0u16, 1, 2, 16, 32, 64, 128, 256, 512, 1024, 4096, 0x8000, 0x00ff, 0xff00];
    let mids: Vec<u16> = (0..r.urange(1, 8)).map(|_| if r.chance(3, 4) { base.wrapping_add(*r.pick(&offsets)) } else { r.next_u64() as u16 }).collect();
    for _ in 0..len {
        let path = r.pick(paths).clone();
        let ep = r.below(neps) as u8;
        ops.push(match r.below(10) {
            0 | 1 => Op::Register { ep, token: r.pick(&toks).to_vec(), path },
            2 => Op::Deregister { ep, token: r.pick(&toks).to_vec(), path },
            3..=6 => Op::Changed { path, mid: *r.pick(&mids), con: r.chance(3, 4) },
            _ if r.chance(1, 12) => Op::SetLimit(*r.pick(&[0u8, 1, 2, 3, 5, 255])),
            _ if r.bool() => Op::AckWith { ep, mid: *r.pick(&mids), token: if r.bool() { r.pick(&toks).to_vec() } else { r.pick(&fam).clone() }, proper: r.bool() },
            _ => Op::Ack { ep, mid: *r.pick(&mids) },
        });
    }
    ops
}

pub fn run_observe(ctx: &mut Ctx, which: &str) {
    let mut r = ctx.rng(1415);
    let (level, budget, shard, nshards) = (ctx.level, ctx.budget, ctx.shard, ctx.nshards);
    let rep = &mut ctx.rep;
    set_case_str("observe histories");
    if cfg!(has_observe_hook) {
        rep.note("observer counters compared through the cfg(coap_lite_verif) hooks");
    } else {
        rep.note("hooks absent: private counters measured by replay-and-probe through the public API");
    }
    let is15 = which == "C15";
    // ---- exhaustive bounded histories
    let (alphabet, paths) = dfs_alphabet();
    let depth = match level {
        0 => 2,
        1 => 4,
        _ => 5,
    };
    let limits: &[u8] = if is15 { &[0, 1, 2] } else { &[0, 1] };
    let a = alphabet.len() as u64;
    let total = a.pow(depth as u32);
    let mut hist: Vec<Op> = Vec::with_capacity(depth);
    let mut idx = 0u64;
    // thorough depth-6 sample handled below; here full enumeration of depth `depth`
    for h in 0..total {
        idx += 1;
        if idx % nshards != shard {
            continue;
        }
        hist.clear();
        let mut x = h;
        for _ in 0..depth {
            hist.push(alphabet[(x % a) as usize].clone());
            x /= a;
        }
        for &limit in limits {
            rep.eval();
            match run_history(rep, limit, &hist, &paths, is15 && h % 7 == 0, which) {
                Ok(()) => {
                    rep.distinct_enumerated();
                }
                Err((sig, detail, step)) => rep.violation(&sig, format!("step {}: {}", step, detail), history_text(limit, &hist)),
            }
            if is15 && !cfg!(has_observe_hook) && h % 11 == 0 {
                probe_check(rep, limit, &hist, &paths);
            }
        }
        if h % 100_003 == 0 {
            rep.sample(|| history_text(limits[0], &hist));
        }
    }
    rep.add("exhaustive_depth", depth as u64 * (shard == 0) as u64);
    // ---- sampled deeper histories over the same alphabet
    let deeper = depth + 2;
    for _ in 0..budget {
        hist.clear();
        for _ in 0..deeper {
            hist.push(r.pick(&alphabet).clone());
        }
        let limit = *r.pick(limits);
        rep.eval();
        if let Err((sig, detail, step)) = run_history(rep, limit, &hist, &paths, is15, which) {
            rep.violation(&sig, format!("step {}: {}", step, detail), history_text(limit, &hist));
        }
    }
    // ---- confusable token pairs (prefix / extension by one byte, every length)
    if shard == 0 || level == 0 {
        directed_token_pairs(rep, if is15 { 3 } else { 1 }, which, is15);
        rep.floor("token_pair_histories_held", 1);
        directed_limit_changes(rep, which, is15, level);
        rep.floor("limit_change_histories_held", 1);
        resource_conservation(rep, if level == 0 { 300 } else { 400_000 }, r.next_u64());
        long_lived_acknowledging(rep, level, which);
        rep.floor("long_lived_acknowledging_histories_held", 1);
    }
    // ---- random long histories over larger alphabets
    let big_paths: Vec<String> = ["a", "b/c", "x", "", "a/b", "/x", "a/", "/", "A"].iter().map(|s| s.to_string()).collect();
    let nlong = (budget / 20).max(3);
    for i in 0..nlong {
        let len = if level == 0 { 40 } else { 200 };
        let ops = random_history(&mut r, len, &big_paths);
        let limit = if !is15 {
            *r.pick(&[0u8, 1, 2, 5])
        } else {
            match r.below(5) {
                0 => 0,
                1 => 1,
                2 => r.below(6) as u8,
                3 => 255,
                _ => r.byte(),
            }
        };
        rep.eval();
        rep.distinct(fnv(history_text(limit, &ops).as_bytes()));
        if let Err((sig, detail, step)) = run_history(rep, limit, &ops, &big_paths, is15, which) {
            rep.violation(&sig, format!("step {}: {}", step, detail), history_text(limit, &ops[..=step.min(ops.len() - 1)]));
        } else {
            rep.count("long_histories_held");
            if is15 && (!cfg!(has_observe_hook) || i % 10 == 0) {
                probe_check(rep, limit, &ops, &big_paths);
            }
        }
    }
    // many endpoints on ONE resource, registered at different times so that their counts differ:
    // evictions then hit the middle of the list while later observers survive (order must be kept)
    let nstag = (budget / 2).max(if level == 0 { 3 } else { 60 });
    let one_path = vec!["r".to_string()];
    for _ in 0..nstag {
        let limit = *r.pick(&[0u8, 1, 2, 3]);
        let neps = r.urange(3, 6) as u8;
        let mut ops: Vec<Op> = Vec::new();
        let mut mid = r.next_u64() as u16;
        let mut next_ep = 0u8;
        for _ in 0..r.urange(12, 40) {
            match r.below(10) {
                0..=2 if next_ep < neps => {
                    ops.push(Op::Register { ep: next_ep, token: vec![next_ep], path: "r".into() });
                    next_ep += 1;
                }
                3 => {
                    let ep = r.below(neps as u64) as u8;
                    ops.push(Op::Ack { ep, mid });
                }
                4 => {
                    let ep = r.below(neps as u64) as u8;
                    ops.push(Op::Register { ep, token: vec![ep, 9], path: "r".into() });
                }
                _ => {
                    mid = mid.wrapping_add(1);
                    ops.push(Op::Changed { path: "r".into(), mid, con: r.chance(5, 6) });
                }
            }
        }
        rep.eval();
        rep.distinct(fnv(history_text(limit, &ops).as_bytes()));
        match run_history(rep, limit, &ops, &one_path, false, which) {
            Ok(()) => rep.count("staggered_histories_held"),
            Err((sig, detail, step)) => rep.violation(&sig, format!("step {}: {}", step, detail), history_text(limit, &ops[..=step.min(ops.len() - 1)])),
        }
    }
    rep.floor("staggered_histories_held", 1);
    if is15 {
        directed_long(rep, level, shard, nshards, which);
        notification_builder(rep, &mut r);
        rep.floor("notifications_checked", 10);
        rep.floor("directed_long_runs_held", 1);
    }
    rep.floor("rounds_on_observed_resources", 10);
    rep.floor("rounds_on_unknown_paths", 1);
    rep.floor("long_histories_held", 1);
}

fn probe_check(rep: &mut Report, limit: u8, ops: &[Op], paths: &[String]) {
    // model's expectation of how many further confirmable rounds an observer survives
    // (the model of the run that just held: it may have adopted evictions at set_limit steps)
    let m = match LAST_MODEL.with(|l| l.borrow().clone()) {
        Some(m) if !m.follow_evictions => m,
        _ => return,
    };
    for path in paths {
        if let Some(l) = m.res.get(path) {
            for o in l {
                // (the limit may have been changed along the way; an observer already above it goes at the next round)
                let want = (m.limit + 1).saturating_sub(o.unack).max(1);
                match guard(|| probe_remaining(limit, ops, path, o.ep)) {
                    Ok(Some(got)) if got == want => rep.count("probes_agree"),
                    // above a lowered limit: gone already, or at the next round
                    Ok(None) if o.unack > m.limit => rep.count("probes_agree"),
                    Ok(got) => rep.violation("probe-remaining-budget", format!("observer ep{} on {:?}: disappears after {:?} further confirmable rounds, model says {}", o.ep, path, got, want), history_text(limit, ops)),
                    Err(p) => rep.violation(&p.sig(), p.text(), history_text(limit, ops)),
                }
            }
        }
    }
}

/// Conservation of resources: N registrations on N pairwise different paths (one endpoint and token
/// each) leave N resources that list exactly their own observer - a Subject that keys its resources
/// by anything narrower than the path (a digest) merges some once there are enough of them.
fn resource_conservation(rep: &mut Report, n: u32, seed: u64) {
    rep.eval();
    set_case_str("observe: conservation of resources");
    let mut s: Subject<Ep> = Subject::default();
    let alphabet: &[u8] = b"abcdefghijklmnopqrstuvwxyz0123456789-";
    let mut x = seed | 1;
    let mut paths: Vec<String> = Vec::with_capacity(n as usize);
    for k in 0..n {
        x = x.wrapping_mul(6364136223846793005).wrapping_add(1442695040888963407);
        let len = 3 + (x >> 59) as usize % 8;
        let mut t = String::new();
        let mut y = x;
        for _ in 0..len {
            y = y.wrapping_mul(6364136223846793005).wrapping_add(1);
            t.push(alphabet[(y >> 33) as usize % alphabet.len()] as char);
        }
        if k % 3 == 0 {
            t.push('/');
        }
        // (':' is not in the alphabet: the running number cannot merge with digits of the random text)
        t.push_str(&format!(":{}", k));
        let r = req((k % 250) as u8, &(k as u32).to_be_bytes(), &t, 0);
        if let Err(p) = guard(|| s.register(&r)) {
            rep.violation(&p.sig(), p.text(), format!("register on {:?}", t));
            return;
        }
        paths.push(t);
    }
    let mut bad = 0u32;
    let mut first_bad = String::new();
    for (k, t) in paths.iter().enumerate() {
        let ok = match s.get_resource_observers(t) {
            Some(l) => l.len() == 1 && l[0].token == (k as u32).to_be_bytes() && l[0].endpoint.0 == (k % 250) as u8,
            None => false,
        };
        if !ok {
            bad += 1;
            if first_bad.is_empty() {
                first_bad = format!("{:?} lists {:?}", t, s.get_resource_observers(t).map(|l| l.iter().map(|o| (o.endpoint.0, hex(&o.token))).collect::<Vec<_>>()));
            }
        }
    }
    if bad > 0 {
        rep.violation("distinct-paths-share-a-resource", format!("{} of {} registered paths do not list exactly their own observer; first: {}", bad, n, first_bad), format!("{} registrations on pairwise different paths, seed {}", n, seed));
    } else {
        rep.count("resource_conservation_runs_held");
        rep.add("distinct_resources_counted", n as u64);
    }
}

/// Long-lived, well-behaved observers: hundreds of rounds, each acknowledged (after a few other
/// rounds at most), with message ids as a real server produces them over time - counting up across
/// the 65535 -> 0 wrap, starting high, jumping, shared between two resources.  Nobody may be dropped.
fn long_lived_acknowledging(rep: &mut Report, level: u32, which: &str) {
    let paths = vec!["r".to_string(), "q".to_string()];
    let rounds = if level == 0 { 40 } else { 700 };
    for (vi, (start, step)) in [(65_000u16, 1u16), (65_535 - 300, 1), (0, 1), (40_000, 97), (65_535, 65_535), (300, 1)].into_iter().enumerate() {
        for limit in [1u8, 3] {
            let mut ops = vec![
                Op::Register { ep: 1, token: vec![7], path: "r".into() },
                Op::Register { ep: 2, token: vec![8, 8], path: "r".into() },
                Op::Register { ep: 1, token: vec![9], path: "q".into() },
            ];
            let mut mid = start;
            for k in 0..rounds {
                mid = mid.wrapping_add(step);
                let path = if k % 3 == 2 { "q" } else { "r" };
                ops.push(Op::Changed { path: path.into(), mid, con: k % 5 != 4 });
                // both acknowledge the round they were just sent (endpoint 2 is not on "q")
                ops.push(Op::AckWith { ep: 1, mid, token: if k % 2 == 0 { vec![] } else { vec![7] }, proper: k % 4 < 2 });
                if path == "r" {
                    ops.push(Op::Ack { ep: 2, mid });
                }
            }
            rep.eval();
            match run_history(rep, limit, &ops, &paths, false, which) {
                Ok(()) => rep.count("long_lived_acknowledging_histories_held"),
                Err((sig, detail, step_no)) => rep.violation(&sig, format!("step {} of {}: {}", step_no, ops.len(), detail), format!("limit={} three registrations, then {} rounds with message ids from {} in steps of {} (variant {}), every round acknowledged by its observers", limit, rounds, start, step, vi)),
            }
        }
    }
}

fn directed_long(rep: &mut Report, level: u32, shard: u64, nshards: u64, which: &str) {
    let paths = vec!["r".to_string(), "other".to_string()];
    let limits: &[u8] = if level == 0 { &[10, 255] } else { &[0, 1, 10, 254, 255] };
    let mut idx = 0u64;
    for &limit in limits {
        let l = limit as usize;
        // phases: k unacknowledged CON rounds, then (ack | wrong ack | NON rounds | re-register), then
        // rounds until well past the limit
        for k in [0usize, 1, l / 2, l.saturating_sub(1), l, l + 1] {
            for variant in 0..6 {
                idx += 1;
                if idx % nshards != shard {
                    continue;
                }
                let mut ops = vec![
                    Op::Register { ep: 1, token: vec![7], path: "r".into() },
                    Op::Register { ep: 2, token: vec![8], path: "r".into() },
                    Op::Register { ep: 1, token: vec![9], path: "other".into() },
                ];
                let mut mid = 100u16;
                for _ in 0..k {
                    mid = mid.wrapping_add(1);
                    ops.push(Op::Changed { path: "r".into(), mid, con: true });
                }
                match variant {
                    0 => ops.push(Op::Ack { ep: 1, mid }),
                    1 => {
                        // stale ids: the previous round, and ids that share their low bits with the current one
                        ops.push(Op::Ack { ep: 1, mid: mid.wrapping_sub(1) });
                        ops.push(Op::Ack { ep: 1, mid: mid.wrapping_sub(64) });
                        ops.push(Op::Ack { ep: 1, mid: mid.wrapping_add(256) });
                        ops.push(Op::Ack { ep: 1, mid }); // ... and then the right one
                    }
                    2 => ops.push(Op::Ack { ep: 3, mid }),                     // other endpoint
                    3 => {
                        for _ in 0..5 {
                            mid = mid.wrapping_add(1);
                            ops.push(Op::Changed { path: "r".into(), mid, con: false });
                        }
                    }
                    4 => ops.push(Op::Register { ep: 1, token: vec![7, 7], path: "r".into() }),
                    _ => {
                        ops.push(Op::Ack { ep: 2, mid });
                        ops.push(Op::Ack { ep: 1, mid });
                    }
                }
                let more = (l + 3).min(600usize.saturating_sub(k));
                for _ in 0..more {
                    mid = mid.wrapping_add(1);
                    ops.push(Op::Changed { path: "r".into(), mid, con: true });
                }
                rep.eval();
                rep.distinct(0xD1_0000 + (limit as u64) << 12 | (k as u64 & 0xff) << 4 | variant as u64);
                match run_history(rep, limit, &ops, &paths, false, which) {
                    Ok(()) => rep.count("directed_long_runs_held"),
                    Err((sig, detail, step)) => {
                        let sig = if limit == 255 { format!("limit255:{}", sig) } else { sig };
                        rep.violation(&sig, format!("step {} of {}: {}", step, ops.len(), detail), format!("limit={} register x3, {} CON rounds, variant {}, then {} CON rounds", limit, k, variant, more));
                    }
                }
            }
        }
    }
}

fn notification_builder(rep: &mut Report, r: &mut Rng) {
    let seqs: [u32; 16] = [0, 1, 2, 254, 255, 256, 257, 65535, 65536, 65537, (1 << 24) - 1, 1 << 24, (1 << 24) + 1, u32::MAX - 1, u32::MAX, 0x0100_0000];
    for tkl in 0..=8usize {
        for &seq in seqs.iter() {
            for con in [true, false] {
                rep.eval();
                let token = r.bytes(tkl);
                let plen = r.usize_below(20);
                let payload = r.bytes(plen);
                let mid = r.next_u64() as u16;
                if let Err(e) = check_notification(rep, mid, &token, seq, &payload, con) {
                    rep.violation("notification-builder", e, format!("create_notification(mid {}, token {}, seq {}, {}B, con {})", mid, hex(&token), seq, plen, con));
                }
            }
        }
    }
    // successive notifications are strictly ordered by their Observe value
    let mut prev: Option<Vec<u8>> = None;
    for seq in (0u32..70000).step_by(1) {
        let p = create_notification(1, vec![], seq, vec![], false);
        let raw = p.get_first_option(CoapOption::Observe).cloned().unwrap_or_default();
        if let Some(pv) = &prev {
            let a = crate::optval::be_value(pv);
            let b = crate::optval::be_value(&raw);
            if b <= a {
                rep.violation("notification-order", format!("Observe {} then {}", hex(pv), hex(&raw)), format!("sequence {}", seq));
                break;
            }
        }
        prev = Some(raw);
    }
    rep.count("notification_order_checked");
}
