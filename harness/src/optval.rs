//! C06 — typed option values: minimal big-endian uints, strings, typed accessors on Packet.
//! Oracle is plain arithmetic.

use crate::ctx::Ctx;
use crate::panicwatch::{guard, set_case_str};
use crate::report::Report;
use crate::rng::{hex, Rng};
use coap_lite::option_value::{OptionValueString, OptionValueU16, OptionValueU32, OptionValueU64, OptionValueU8};
use coap_lite::CoapOption;
use std::collections::LinkedList;
use std::convert::TryFrom;

/// shortest big-endian representation; zero is the empty string
pub fn min_be(v: u64) -> Vec<u8> {
    let b = v.to_be_bytes();
    let skip = b.iter().take_while(|x| **x == 0).count();
    b[skip..].to_vec()
}

pub fn be_value(b: &[u8]) -> u64 {
    let mut v: u64 = 0;
    for x in b {
        v = v << 8 | *x as u64;
    }
    v
}

macro_rules! check_width {
    ($rep:expr, $ty:ident, $prim:ty, $width:expr, $v:expr) => {{
        let v: $prim = $v;
        $rep.eval();
        let want = min_be(v as u64);
        match guard(|| Vec::<u8>::from($ty(v))) {
            Err(p) => $rep.violation(&p.sig(), p.text(), format!("{}({})", stringify!($ty), v)),
            Ok(enc) => {
                if enc != want {
                    $rep.violation(concat!("encode-not-minimal-be:", stringify!($ty)), format!("{} encodes to {} instead of {}", v, hex(&enc), hex(&want)), format!("{}({})", stringify!($ty), v));
                } else {
                    match guard(|| $ty::try_from(enc.clone())) {
                        Ok(Ok(back)) if back.0 == v => $rep.count(concat!("roundtrip_", stringify!($ty))),
                        other => $rep.violation(concat!("decode-roundtrip:", stringify!($ty)), format!("{} -> {} -> {:?}", v, hex(&enc), other.map(|r| r.map(|x| x.0))), format!("{}({})", stringify!($ty), v)),
                    }
                }
            }
        }
    }};
}

macro_rules! check_decode {
    ($rep:expr, $ty:ident, $prim:ty, $width:expr, $bytes:expr) => {{
        let b: &[u8] = $bytes;
        $rep.eval();
        match guard(|| $ty::try_from(b.to_vec())) {
            Err(p) => $rep.violation(&p.sig(), p.text(), format!("{}::try_from({})", stringify!($ty), hex(b))),
            Ok(r) => {
                if b.len() > $width {
                    if r.is_ok() {
                        $rep.violation(concat!("decode-accepts-overlong:", stringify!($ty)), format!("{} bytes accepted for a {}-byte type: {:?}", b.len(), $width, r.map(|x| x.0)), hex(b));
                    } else {
                        $rep.count("overlong_rejected");
                    }
                } else {
                    let want = be_value(b) as $prim;
                    match r {
                        Ok(x) if x.0 == want => $rep.count(concat!("decode_", stringify!($ty))),
                        other => $rep.violation(concat!("decode-value:", stringify!($ty)), format!("{} decodes to {:?}, want {}", hex(b), other.map(|x| x.0), want), hex(b)),
                    }
                }
            }
        }
    }};
}

fn interesting_u64() -> Vec<u64> {
    let mut v = vec![0u64, 1, 2, 254, 255, 256, 257, u64::MAX, u64::MAX - 1];
    for k in 0..64 {
        let p = 1u64 << k;
        v.push(p);
        v.push(p.wrapping_sub(1));
        v.push(p.wrapping_add(1));
    }
    for k in 1..8 {
        let p = 1u64 << (8 * k);
        v.push(p);
        v.push(p - 1);
        v.push(p + 1);
        v.push(p | 0x80);
        v.push(0x80u64 << (8 * (k - 1)));
    }
    v.sort();
    v.dedup();
    v
}

fn all_bytestrings(maxlen: usize, f: &mut dyn FnMut(&[u8])) {
    let mut buf = Vec::new();
    for len in 0..=maxlen {
        let n = 1u64 << (8 * len);
        for v in 0..n {
            buf.clear();
            for k in (0..len).rev() {
                buf.push((v >> (8 * k)) as u8);
            }
            f(&buf);
        }
    }
}

pub fn run_c06(ctx: &mut Ctx) {
    let mut r = ctx.rng(6);
    let shard0 = ctx.shard == 0;
    let (level, budget, shard, nshards) = (ctx.level, ctx.budget, ctx.shard, ctx.nshards);
    let rep = &mut ctx.rep;
    set_case_str("C06 typed option values");
    // exhaustive 8 and 16 bit (shard 0 does u8; u16 split)
    if shard0 {
        for v in 0..=255u8 {
            check_width!(rep, OptionValueU8, u8, 1, v);
            rep.distinct(0x1000 + v as u64);
        }
    }
    let step16 = if level == 0 { 97 } else { 1 };
    let mut v16 = 0u32;
    while v16 <= 65535 {
        if (v16 as u64) % nshards == shard {
            check_width!(rep, OptionValueU16, u16, 2, v16 as u16);
            check_width!(rep, OptionValueU32, u32, 4, v16);
            check_width!(rep, OptionValueU64, u64, 8, v16 as u64);
            rep.distinct(0x10000 + v16 as u64);
        }
        v16 += step16;
    }
    // boundaries for 32 / 64 bit
    if shard0 {
        for v in interesting_u64() {
            check_width!(rep, OptionValueU64, u64, 8, v);
            if v <= u32::MAX as u64 {
                check_width!(rep, OptionValueU32, u32, 4, v as u32);
            }
            rep.distinct(0x2_0000_0000 ^ v);
        }
    }
    for _ in 0..budget {
        let v = match r.below(4) {
            0 => r.next_u64(),
            1 => r.next_u64() >> r.below(64),
            2 => r.next_u64() & 0xffff_ffff,
            _ => (r.byte() as u64) << (8 * r.below(8)),
        };
        check_width!(rep, OptionValueU64, u64, 8, v);
        check_width!(rep, OptionValueU32, u32, 4, v as u32);
        rep.distinct(0x3_0000_0000 ^ (v.leading_zeros() as u64) << 8 ^ (v & 0xff));
    }
    // decode: every byte string up to 2 (quick) / 3 (thorough) bytes, for every width
    let maxlen = match level {
        0 => 1,
        1 => 2,
        _ => 3,
    };
    let mut idx = 0u64;
    all_bytestrings(maxlen, &mut |b| {
        idx += 1;
        if idx % nshards != shard {
            return;
        }
        check_decode!(rep, OptionValueU8, u8, 1, b);
        check_decode!(rep, OptionValueU16, u16, 2, b);
        check_decode!(rep, OptionValueU32, u32, 4, b);
        check_decode!(rep, OptionValueU64, u64, 8, b);
    });
    // random byte strings 0..10 (leading zeros, over-long)
    for _ in 0..budget {
        let len = r.usize_below(11);
        let mut b = r.bytes(len);
        if len > 0 && r.chance(1, 3) {
            let z = r.usize_below(len) + 1;
            for x in b.iter_mut().take(z) {
                *x = 0;
            }
        }
        check_decode!(rep, OptionValueU8, u8, 1, &b);
        check_decode!(rep, OptionValueU16, u16, 2, &b);
        check_decode!(rep, OptionValueU32, u32, 4, &b);
        check_decode!(rep, OptionValueU64, u64, 8, &b);
        rep.distinct(0x4_0000_0000 ^ (len as u64) << 16 ^ (b.iter().take_while(|x| **x == 0).count() as u64));
    }
    // strings
    c06_strings(rep, &mut r, budget, level);
    // typed accessors on Packet
    c06_accessors(rep, &mut r, budget / 4 + 50);
    rep.floor("roundtrip_OptionValueU16", 100);
    rep.floor("overlong_rejected", 10);
    rep.floor("invalid_utf8_rejected", 5);
    rep.floor("accessor_lists_checked", 10);
}

fn random_string(r: &mut Rng) -> String {
    let len = r.usize_below(20);
    let mut s = String::new();
    for _ in 0..len {
        let c = match r.below(6) {
            0 => r.range(0x20, 0x7e) as u32,
            1 => r.range(0x80, 0x7ff) as u32,
            2 => r.range(0x800, 0xd7ff) as u32,
            3 => r.range(0xe000, 0xffff) as u32,
            4 => r.range(0x10000, 0x10ffff) as u32,
            // boundaries of the UTF-8 lengths and code points with a meaning to text processing
            // (byte-order mark and its mirror, non-characters, separators, bidi / joiner controls, combining marks)
            _ => *r.pick(&[0u32, 0x7f, 0x80, 0x7ff, 0x800, 0xffff, 0x10000, 0x10ffff, 0x1f601, 0xfeff, 0xfffe, 0xfffd, 0x2028, 0x2029, 0x85, 0xa0, 0x200b, 0x200d, 0x200e, 0x202e, 0x301, 0xe0001, 0xfdd0, 0x9, 0xa, 0xd]),
        };
        if let Some(ch) = char::from_u32(c) {
            s.push(ch);
        }
    }
    s
}

const BAD_UTF8: &[&[u8]] = &[
    &[0x80],
    &[0xbf],
    &[0xc0, 0x80],
    &[0xc1, 0xbf],
    &[0xe0, 0x80, 0x80],
    &[0xed, 0xa0, 0x80],
    &[0xed, 0xbf, 0xbf],
    &[0xf0, 0x80, 0x80, 0x80],
    &[0xf4, 0x90, 0x80, 0x80],
    &[0xf5, 0x80, 0x80, 0x80],
    &[0xff],
    &[0xfe],
    &[0xc2],
    &[0xe2, 0x82],
    &[0xf0, 0x9f, 0x98],
    &[0x61, 0x80, 0x62],
    &[0x61, 0xc2],
];

/// every "special" code point at the start, in the middle and at the end of a short string
fn special_strings(level: u32) -> Vec<String> {
    let specials = [0u32, 0x7f, 0x80, 0x7ff, 0x800, 0xffff, 0x10000, 0x10ffff, 0xfeff, 0xfffe, 0xfffd, 0x2028, 0x2029, 0x85, 0xa0, 0x3000, 0x200b, 0x200d, 0x200e, 0x202e, 0x301, 0xe0001, 0xfdd0, 0x9, 0xa, 0xd, 0x20, 0x22, 0x5c];
    let mut out = Vec::new();
    for c in specials {
        let ch = match char::from_u32(c) {
            Some(x) => x,
            None => continue,
        };
        out.push(ch.to_string());
        out.push(format!("{}sensors", ch));
        out.push(format!("sens{}ors", ch));
        out.push(format!("sensors{}", ch));
        out.push(format!("{}{}", ch, ch));
        out.push(format!("{}é{}", ch, ch));
    }
    // long strings: on both sides of the option-length thresholds (13, 269), of the message size
    // limits and of what one option instance can carry on the wire (65535 + 269 bytes) - a stored
    // value is a stored value whatever a later serialisation would say about it
    // (the interpreter lane keeps to the short ones)
    let lens: &[usize] = if level == 0 { &[12, 13, 269] } else { &[12, 13, 14, 268, 269, 270, 1034, 1035, 1280, 1281, 65_535, 65_536, 65_803, 65_804, 65_805, 70_000, 200_000] };
    for &len in lens {
        out.push("a".repeat(len));
        out.push(format!("é{}", "b".repeat(len - 2)));
    }
    out
}

fn c06_strings(rep: &mut Report, r: &mut Rng, budget: u64, level: u32) {
    let specials = special_strings(level);
    for i in 0..budget.min(200_000) + specials.len() as u64 {
        rep.eval();
        let s = if (i as usize) < specials.len() { specials[i as usize].clone() } else { random_string(r) };
        // through the typed accessors of a message as well (first value, list, path view)
        if i % 4 == 0 || (i as usize) < specials.len() {
            let res = guard(|| {
                let mut p = crate::ctx::context_packet();
                p.add_option_as(CoapOption::UriPath, OptionValueString(s.clone()));
                p.add_option_as(CoapOption::UriPath, OptionValueString("tail".into()));
                let first = p.get_first_option_as::<OptionValueString>(CoapOption::UriPath).map(|x| x.map(|v| v.0).map_err(|_| ()));
                let all: Option<Vec<Result<String, ()>>> = p.get_options_as::<OptionValueString>(CoapOption::UriPath).map(|l| l.into_iter().map(|x| x.map(|v| v.0).map_err(|_| ())).collect());
                let rq = coap_lite::CoapRequest::from_packet(p, 1u8);
                (first, all, rq.get_path_as_vec().map_err(|_| ()))
            });
            match res {
                Ok((Some(Ok(f)), Some(all), Ok(pv))) if f == s && all == vec![Ok(s.clone()), Ok("tail".to_string())] && pv == vec![s.clone(), "tail".to_string()] => rep.count("string_through_message_accessors"),
                other => rep.violation("string-accessor", format!("{:?} stored as a Uri-Path value comes back as {:?}", s, other.map_err(|p| p.text())), format!("{:?}", s)),
            }
        }
        let enc = Vec::<u8>::from(OptionValueString(s.clone()));
        if enc != s.as_bytes() {
            rep.violation("string-encode", format!("{:?} encodes to {}", s, hex(&enc)), format!("{:?}", s));
            continue;
        }
        match guard(|| OptionValueString::try_from(enc.clone())) {
            Ok(Ok(b)) if b.0 == s => rep.count("string_roundtrip"),
            other => rep.violation("string-roundtrip", format!("{:?} -> {:?}", s, other.map(|r| r.map(|x| x.0))), format!("{:?}", s)),
        }
        rep.distinct(0x5_0000_0000 ^ crate::rng::fnv(s.as_bytes()) >> 40);
    }
    for (i, bad) in BAD_UTF8.iter().enumerate() {
        for pre in [&b""[..], &b"ab"[..], "é".as_bytes()] {
            for post in [&b""[..], &b"z"[..]] {
                rep.eval();
                let mut b = pre.to_vec();
                b.extend_from_slice(bad);
                b.extend_from_slice(post);
                debug_assert!(std::str::from_utf8(&b).is_err());
                match guard(|| OptionValueString::try_from(b.clone())) {
                    Ok(Err(_)) => rep.count("invalid_utf8_rejected"),
                    other => rep.violation("invalid-utf8-accepted", format!("{} -> {:?}", hex(&b), other.map(|r| r.map(|x| x.0))), hex(&b)),
                }
                rep.distinct(0x6_0000_0000 + i as u64);
            }
        }
    }
}

fn c06_accessors(rep: &mut Report, r: &mut Rng, n: u64) {
    let opts = [CoapOption::MaxAge, CoapOption::Size1, CoapOption::UriPort, CoapOption::Unknown(4000), CoapOption::Accept, CoapOption::ETag];
    for _ in 0..n {
        rep.eval();
        let opt = *r.pick(&opts);
        let k = r.usize_below(5);
        // random widths, or numbers that mean something to some option (protocol defaults: Max-Age 60, ports
        // 5683 / 5684, content formats, block sizes ...), repeated values included
        let pool = [0u32, 1, 12, 14, 40, 42, 50, 60, 60, 60, 61, 255, 256, 1024, 5683, 5684, 65535, 65536, 86400, 1 << 24, u32::MAX];
        let vals: Vec<u32> = (0..k).map(|_| if r.bool() { (r.next_u64() >> r.below(64)) as u32 } else { *r.pick(&pool) }).collect();
        let res = guard(|| {
            let mut p = crate::ctx::context_packet();
            // something else is already there
            p.add_option(opt, vec![9, 9, 9, 9, 9, 9]);

            if r.bool() {
                let l: LinkedList<OptionValueU32> = vals.iter().map(|v| OptionValueU32(*v)).collect();
                p.set_options_as(opt, l);
            } else {
                p.clear_option(opt);
                for v in &vals {
                    p.add_option_as(opt, OptionValueU32(*v));
                }
            }
            // other option numbers come and go meanwhile - among them numbers that collide with this one
            // under small moduli (a presence filter, a bucket index): added, then cleared or emptied
            let on = u16::from(opt);
            for (j, d) in [64u16, 128, 256, 32, 1024, 8].into_iter().enumerate() {
                let other = CoapOption::from(on.wrapping_add(d));
                if other == opt {
                    continue;
                }
                p.add_option(other, vec![0xAA]);
                if j % 2 == 0 {
                    p.clear_option(other);
                } else {
                    p.set_option(other, Default::default());
                }
            }
            let raw: Vec<Vec<u8>> = p.get_option(opt).map(|l| l.iter().cloned().collect()).unwrap_or_default();
            let typed: Vec<Result<u32, ()>> = p
                .get_options_as::<OptionValueU32>(opt)
                .map(|l| l.into_iter().map(|x| x.map(|v| v.0).map_err(|_| ())).collect())
                .unwrap_or_default();
            let first = p.get_first_option_as::<OptionValueU32>(opt).map(|x| x.map(|v| v.0).map_err(|_| ()));
            let first_raw = p.get_first_option(opt).cloned();
            // the same list read at another width
            let typed64: Vec<Result<u64, ()>> = p
                .get_options_as::<OptionValueU64>(opt)
                .map(|l| l.into_iter().map(|x| x.map(|v| v.0).map_err(|_| ())).collect())
                .unwrap_or_default();
            let typed8: Vec<Result<u8, ()>> = p
                .get_options_as::<OptionValueU8>(opt)
                .map(|l| l.into_iter().map(|x| x.map(|v| v.0).map_err(|_| ())).collect())
                .unwrap_or_default();
            (raw, typed, first, first_raw, typed64, typed8)
        });
        let wit = format!("{:?} values {:?}", opt, vals);
        match res {
            Err(p) => rep.violation(&p.sig(), p.text(), wit),
            Ok((raw, typed, first, first_raw, typed64, typed8)) => {
                let want_raw: Vec<Vec<u8>> = vals.iter().map(|v| min_be(*v as u64)).collect();
                let want_typed: Vec<Result<u32, ()>> = vals.iter().map(|v| Ok(*v)).collect();
                let want64: Vec<Result<u64, ()>> = vals.iter().map(|v| Ok(*v as u64)).collect();
                let want8: Vec<Result<u8, ()>> = vals.iter().map(|v| if *v < 256 { Ok(*v as u8) } else { Err(()) }).collect();
                if raw != want_raw {
                    rep.violation("accessor-raw-list", format!("raw list {:?} want {:?}", raw, want_raw), wit);
                } else if typed != want_typed || typed64 != want64 || typed8 != want8 {
                    rep.violation("accessor-typed-list", format!("typed {:?}/{:?}/{:?}", typed, typed64, typed8), wit);
                } else if first != want_typed.first().cloned() || first_raw != want_raw.first().cloned() {
                    rep.violation("accessor-first", format!("first {:?} / {:?}; list {:?}", first, first_raw, want_typed), wit);
                } else {
                    rep.count("accessor_lists_checked");
                    rep.distinct(0x7_0000_0000 + k as u64 * 64 + vals.first().map(|v| v.leading_zeros() as u64).unwrap_or(40));
                }
            }
        }
        // observe value: set twice, read back, raw bytes minimal
        rep.eval();
        let a = (r.next_u64() >> r.below(64)) as u32;
        let b = (r.next_u64() >> r.below(64)) as u32;
        let res = guard(|| {
            let mut p = crate::ctx::context_packet();
            let before = p.get_observe_value();
            if a % 3 == 0 {
                // several raw values already there
                p.add_option(CoapOption::Observe, vec![9]);
                p.add_option(CoapOption::Observe, vec![8, 8]);
                p.clear_option(CoapOption::Observe);
                p.add_option(CoapOption::Observe, vec![7]);
                p.add_option(CoapOption::Observe, vec![]);
            }
            p.set_observe_value(a);
            if a % 2 == 0 {
                // the option already spells the number about to be set, but padded and followed by more values
                p.clear_option(CoapOption::Observe);
                let mut padded = vec![0u8];
                padded.extend_from_slice(&min_be(b as u64));
                if padded.len() <= 4 {
                    p.add_option(CoapOption::Observe, padded);
                } else {
                    p.add_option(CoapOption::Observe, min_be(b as u64));
                }
                p.add_option(CoapOption::Observe, vec![3]);
            }
            p.set_observe_value(b);
            (before.is_none(), p.get_observe_value().map(|x| x.map_err(|_| ())), p.get_option(CoapOption::Observe).map(|l| l.iter().cloned().collect::<Vec<_>>()))
        });
        match res {
            Ok((true, Some(Ok(v)), Some(raw))) if v == b && raw == vec![min_be(b as u64)] => rep.count("observe_value_checked"),
            other => rep.violation("observe-value-accessor", format!("set {} then {}: {:?}", a, b, other.map_err(|p| p.text())), format!("observe {} {}", a, b)),
        }
        // raw observe bytes of length 0..6 read through get_observe_value
        rep.eval();
        let len = r.usize_below(7);
        let raw = r.bytes(len);
        let res = guard(|| {
            let mut p = crate::ctx::context_packet();
            p.add_option(CoapOption::Observe, raw.clone());
            p.add_option(CoapOption::Observe, vec![1]);
            p.get_observe_value().map(|x| x.map_err(|_| ()))
        });
        let want = if len <= 4 { Some(Ok(be_value(&raw) as u32)) } else { Some(Err(())) };
        match res {
            Ok(got) if got == want => rep.count("observe_raw_checked"),
            other => rep.violation("observe-raw-accessor", format!("raw {} -> {:?}, want {:?}", hex(&raw), other.map_err(|p| p.text()), want), hex(&raw)),
        }
    }
    rep.sample(|| format!("OptionValueU32(65536) -> {}", hex(&Vec::<u8>::from(OptionValueU32(65536)))));
    rep.sample(|| format!("OptionValueU16::try_from([0,0]) -> {:?}", OptionValueU16::try_from(vec![0u8, 0]).map(|x| x.0)));
    rep.sample(|| format!("OptionValueU8::try_from([1,0]) -> {:?}", OptionValueU8::try_from(vec![1u8, 0]).map(|x| x.0).map_err(|e| e.message)));
}
