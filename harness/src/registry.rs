//! C05 — protocol numbers against registry tables transcribed by hand from the RFCs and the
//! IANA "CoRE Parameters" registry (not from the crate's source).

use crate::ctx::Ctx;
use crate::panicwatch::{guard, set_case_str};
use coap_lite::{CoapOption, ContentFormat, Header, MessageClass, MessageType, ObserveOption, Packet, RequestType, ResponseType};
use std::convert::TryFrom;

/// RFC 7252 12.2 + RFC 7641 + RFC 7959 + RFC 7967 + RFC 8613 (names the crate is known to use).
pub const OPTIONS: &[(u16, &str)] = &[
    (1, "If-Match"),
    (3, "Uri-Host"),
    (4, "ETag"),
    (5, "If-None-Match"),
    (6, "Observe"),
    (7, "Uri-Port"),
    (8, "Location-Path"),
    (9, "OSCORE"),
    (11, "Uri-Path"),
    (12, "Content-Format"),
    (14, "Max-Age"),
    (15, "Uri-Query"),
    (17, "Accept"),
    (20, "Location-Query"),
    (23, "Block2"),
    (27, "Block1"),
    (28, "Size2"),
    (35, "Proxy-Uri"),
    (39, "Proxy-Scheme"),
    (60, "Size1"),
    (258, "No-Response"),
];

/// Numbers IANA assigns that a conforming crate may name or leave unknown.
pub const OPTIONS_OPTIONAL: &[(u16, &str)] = &[
    (13, "EDHOC"),
    (16, "Hop-Limit"),
    (19, "Q-Block1"),
    (21, "EDHOC"),
    (31, "Q-Block2"),
    (252, "Echo"),
    (292, "Request-Tag"),
    (2049, "OCF-Accept-Content-Format-Version"),
    (2053, "OCF-Content-Format-Version"),
];

/// IANA CoAP Content-Formats: (id, media type, expected variant name lower-cased, alphanumerics only)
pub const CONTENT_FORMATS: &[(usize, &str, &str)] = &[
    (0, "text/plain; charset=utf-8", "textplain"),
    (16, "application/cose; cose-type=\"cose-encrypt0\"", "applicationcoseencrypt0"),
    (17, "application/cose; cose-type=\"cose-mac0\"", "applicationcosemac0"),
    (18, "application/cose; cose-type=\"cose-sign1\"", "applicationcosesign1"),
    (19, "application/ace+cbor", "applicationacecbor"),
    (21, "image/gif", "imagegif"),
    (22, "image/jpeg", "imagejpeg"),
    (23, "image/png", "imagepng"),
    (40, "application/link-format", "applicationlinkformat"),
    (41, "application/xml", "applicationxml"),
    (42, "application/octet-stream", "applicationoctetstream"),
    (47, "application/exi", "applicationexi"),
    (50, "application/json", "applicationjson"),
    (51, "application/json-patch+json", "applicationjsonpatchjson"),
    (52, "application/merge-patch+json", "applicationmergepatchjson"),
    (60, "application/cbor", "applicationcbor"),
    (61, "application/cwt", "applicationcwt"),
    (62, "application/multipart-core", "applicationmultipartcore"),
    (63, "application/cbor-seq", "applicationcborseq"),
    (96, "application/cose; cose-type=\"cose-encrypt\"", "applicationcoseencrypt"),
    (97, "application/cose; cose-type=\"cose-mac\"", "applicationcosemac"),
    (98, "application/cose; cose-type=\"cose-sign\"", "applicationcosesign"),
    (101, "application/cose-key", "applicationcosekey"),
    (102, "application/cose-key-set", "applicationcosekeyset"),
    (110, "application/senml+json", "applicationsenmljson"),
    (111, "application/sensml+json", "applicationsensmljson"),
    (112, "application/senml+cbor", "applicationsenmlcbor"),
    (113, "application/sensml+cbor", "applicationsensmlcbor"),
    (114, "application/senml-exi", "applicationsenmlexi"),
    (115, "application/sensml-exi", "applicationsensmlexi"),
    (140, "application/yang-data+cbor; id=sid", "applicationyangdatacborsid"),
    (256, "application/coap-group+json", "applicationcoapgroupjson"),
    (271, "application/dots+cbor", "applicationdotscbor"),
    (272, "application/missing-blocks+cbor-seq", "applicationmissingblockscborseq"),
    (280, "application/pkcs7-mime; smime-type=server-generated-key", "applicationpkcs7mimeservergeneratedkey"),
    (281, "application/pkcs7-mime; smime-type=certs-only", "applicationpkcs7mimecertsonly"),
    (284, "application/pkcs8", "applicationpkcs8"),
    (285, "application/csrattrs", "applicationcsrattrs"),
    (286, "application/pkcs10", "applicationpkcs10"),
    (287, "application/pkix-cert", "applicationpkixcert"),
    (290, "application/aif+cbor", "applicationaifcbor"),
    (291, "application/aif+json", "applicationaifjson"),
    (310, "application/senml+xml", "applicationsenmlxml"),
    (311, "application/sensml+xml", "applicationsensmlxml"),
    (320, "application/senml-etch+json", "applicationsenmletchjson"),
    (322, "application/senml-etch+cbor", "applicationsenmletchcbor"),
    (340, "application/yang-data+cbor", "applicationyangdatacbor"),
    (341, "application/yang-data+cbor; id=name", "applicationyangdatacborname"),
    (432, "application/td+json", "applicationtdjson"),
    (836, "application/voucher-cose+cbor", "applicationvouchercosecbor"),
    (10000, "application/vnd.ocf+cbor", "applicationvndocfcbor"),
    (10001, "application/oscore", "applicationoscore"),
    (10002, "application/javascript", "applicationjavascript"),
    (11050, "application/json (deflate)", "applicationjsondeflate"),
    (11060, "application/cbor (deflate)", "applicationcbordeflate"),
    (11542, "application/vnd.oma.lwm2m+tlv", "applicationvndomalwm2mtlv"),
    (11543, "application/vnd.oma.lwm2m+json", "applicationvndomalwm2mjson"),
    (11544, "application/vnd.oma.lwm2m+cbor", "applicationvndomalwm2mcbor"),
    (20000, "text/css", "textcss"),
    (30000, "image/svg+xml", "imagesvgxml"),
];

/// RFC 7252 12.1.1 + RFC 8132
pub const METHODS: &[(u8, &str)] = &[(1, "GET"), (2, "POST"), (3, "PUT"), (4, "DELETE"), (5, "FETCH"), (6, "PATCH"), (7, "iPATCH")];

/// RFC 7252 12.1.2 + RFC 7959 (2.31, 4.08) + RFC 8132 (4.09, 4.22) + RFC 8516 (4.29) + RFC 8768 (5.08)
pub const RESPONSES: &[(u8, u8, &str)] = &[
    (2, 1, "Created"),
    (2, 2, "Deleted"),
    (2, 3, "Valid"),
    (2, 4, "Changed"),
    (2, 5, "Content"),
    (2, 31, "Continue"),
    (4, 0, "Bad Request"),
    (4, 1, "Unauthorized"),
    (4, 2, "Bad Option"),
    (4, 3, "Forbidden"),
    (4, 4, "Not Found"),
    (4, 5, "Method Not Allowed"),
    (4, 6, "Not Acceptable"),
    (4, 8, "Request Entity Incomplete"),
    (4, 9, "Conflict"),
    (4, 12, "Precondition Failed"),
    (4, 13, "Request Entity Too Large"),
    (4, 15, "Unsupported Content-Format"),
    (4, 22, "Unprocessable Entity"),
    (4, 29, "Too Many Requests"),
    (5, 0, "Internal Server Error"),
    (5, 1, "Not Implemented"),
    (5, 2, "Bad Gateway"),
    (5, 3, "Service Unavailable"),
    (5, 4, "Gateway Timeout"),
    (5, 5, "Proxying Not Supported"),
    (5, 8, "Hop Limit Reached"),
];

pub fn norm(s: &str) -> String {
    s.chars().filter(|c| c.is_ascii_alphanumeric()).map(|c| c.to_ascii_lowercase()).collect()
}

/// every named variant, written out by name, with the registry number it must carry
fn named_options() -> Vec<(CoapOption, u16)> {
    vec![
        (CoapOption::IfMatch, 1),
        (CoapOption::UriHost, 3),
        (CoapOption::ETag, 4),
        (CoapOption::IfNoneMatch, 5),
        (CoapOption::Observe, 6),
        (CoapOption::UriPort, 7),
        (CoapOption::LocationPath, 8),
        (CoapOption::Oscore, 9),
        (CoapOption::UriPath, 11),
        (CoapOption::ContentFormat, 12),
        (CoapOption::MaxAge, 14),
        (CoapOption::UriQuery, 15),
        (CoapOption::Accept, 17),
        (CoapOption::LocationQuery, 20),
        (CoapOption::Block2, 23),
        (CoapOption::Block1, 27),
        (CoapOption::Size2, 28),
        (CoapOption::ProxyUri, 35),
        (CoapOption::ProxyScheme, 39),
        (CoapOption::Size1, 60),
        (CoapOption::NoResponse, 258),
    ]
}

pub fn named_methods() -> Vec<(RequestType, u8)> {
    vec![
        (RequestType::Get, 0x01),
        (RequestType::Post, 0x02),
        (RequestType::Put, 0x03),
        (RequestType::Delete, 0x04),
        (RequestType::Fetch, 0x05),
        (RequestType::Patch, 0x06),
        (RequestType::IPatch, 0x07),
    ]
}

pub fn named_statuses() -> Vec<(ResponseType, u8)> {
    let c = |class: u8, detail: u8| class << 5 | detail;
    vec![
        (ResponseType::Created, c(2, 1)),
        (ResponseType::Deleted, c(2, 2)),
        (ResponseType::Valid, c(2, 3)),
        (ResponseType::Changed, c(2, 4)),
        (ResponseType::Content, c(2, 5)),
        (ResponseType::Continue, c(2, 31)),
        (ResponseType::BadRequest, c(4, 0)),
        (ResponseType::Unauthorized, c(4, 1)),
        (ResponseType::BadOption, c(4, 2)),
        (ResponseType::Forbidden, c(4, 3)),
        (ResponseType::NotFound, c(4, 4)),
        (ResponseType::MethodNotAllowed, c(4, 5)),
        (ResponseType::NotAcceptable, c(4, 6)),
        (ResponseType::RequestEntityIncomplete, c(4, 8)),
        (ResponseType::Conflict, c(4, 9)),
        (ResponseType::PreconditionFailed, c(4, 12)),
        (ResponseType::RequestEntityTooLarge, c(4, 13)),
        (ResponseType::UnsupportedContentFormat, c(4, 15)),
        (ResponseType::UnprocessableEntity, c(4, 22)),
        (ResponseType::TooManyRequests, c(4, 29)),
        (ResponseType::InternalServerError, c(5, 0)),
        (ResponseType::NotImplemented, c(5, 1)),
        (ResponseType::BadGateway, c(5, 2)),
        (ResponseType::ServiceUnavailable, c(5, 3)),
        (ResponseType::GatewayTimeout, c(5, 4)),
        (ResponseType::ProxyingNotSupported, c(5, 5)),
        (ResponseType::HopLimitReached, c(5, 8)),
    ]
}

pub fn named_content_formats() -> Vec<(ContentFormat, usize)> {
    use ContentFormat::*;
    vec![
        (TextPlain, 0),
        (ApplicationCoseEncrypt0, 16),
        (ApplicationCoseMac0, 17),
        (ApplicationCoseSign1, 18),
        (ApplicationAceCbor, 19),
        (ImageGif, 21),
        (ImageJpeg, 22),
        (ImagePng, 23),
        (ApplicationLinkFormat, 40),
        (ApplicationXML, 41),
        (ApplicationOctetStream, 42),
        (ApplicationEXI, 47),
        (ApplicationJSON, 50),
        (ApplicationJsonPatchJson, 51),
        (ApplicationMergePatchJson, 52),
        (ApplicationCBOR, 60),
        (ApplicationCWt, 61),
        (ApplicationMultipartCore, 62),
        (ApplicationCborSeq, 63),
        (ApplicationCoseEncrypt, 96),
        (ApplicationCoseMac, 97),
        (ApplicationCoseSign, 98),
        (ApplicationCoseKey, 101),
        (ApplicationCoseKeySet, 102),
        (ApplicationSenmlJSON, 110),
        (ApplicationSensmlJSON, 111),
        (ApplicationSenmlCBOR, 112),
        (ApplicationSensmlCBOR, 113),
        (ApplicationSenmlExi, 114),
        (ApplicationSensmlExi, 115),
        (ApplicationYangDataCborSid, 140),
        (ApplicationCoapGroupJson, 256),
        (ApplicationDotsCbor, 271),
        (ApplicationMissingBlocksCborSeq, 272),
        (ApplicationPkcs7MimeServerGeneratedKey, 280),
        (ApplicationPkcs7MimeCertsOnly, 281),
        (ApplicationPkcs8, 284),
        (ApplicationCsrattrs, 285),
        (ApplicationPkcs10, 286),
        (ApplicationPkixCert, 287),
        (ApplicationAifCbor, 290),
        (ApplicationAifJson, 291),
        (ApplicationSenmlXML, 310),
        (ApplicationSensmlXML, 311),
        (ApplicationSenmlEtchJson, 320),
        (ApplicationSenmlEtchCbor, 322),
        (ApplicationYangDataCbor, 340),
        (ApplicationYangDataCborName, 341),
        (ApplicationTdJson, 432),
        (ApplicationVoucherCoseCbor, 836),
        (ApplicationVndOcfCbor, 10000),
        (ApplicationOscore, 10001),
        (ApplicationJavascript, 10002),
        (ApplicationJsonDeflate, 11050),
        (ApplicationCborDeflate, 11060),
        (ApplicationVndOmaLwm2mTlv, 11542),
        (ApplicationVndOmaLwm2mJson, 11543),
        (ApplicationVndOmaLwm2mCbor, 11544),
        (TextCss, 20000),
        (ImageSvgXml, 30000),
    ]
}

pub fn run_c05(ctx: &mut Ctx) {
    let level = ctx.level;
    let rep = &mut ctx.rep;
    // level 0 (interpreter-sized) walks every 997th unnamed number; every named row is always checked
    rep.exhaustive = level > 0;
    let keep = |n: usize, named: bool| level > 0 || named || n % 997 == 0;
    set_case_str("C05 registry sweep");

    // ---- options: all 65536 numbers
    for n in 0..=65535u16 {
        if !keep(n as usize, OPTIONS.iter().any(|(k, _)| *k == n) || OPTIONS_OPTIONAL.iter().any(|(k, _)| *k == n)) {
            continue;
        }
        rep.eval();
        let r = guard(|| {
            let o = CoapOption::from(n);
            (format!("{:?}", o), u16::from(o), o == CoapOption::Unknown(n))
        });
        let (dbg, back, is_unknown) = match r {
            Ok(x) => x,
            Err(p) => {
                rep.violation(&p.sig(), p.text(), format!("CoapOption::from({})", n));
                continue;
            }
        };
        if back != n {
            rep.violation("option-number-roundtrip", format!("u16::from(CoapOption::from({})) = {} ({})", n, back, dbg), format!("option number {}", n));
        }
        if let Some((_, name)) = OPTIONS.iter().find(|(k, _)| *k == n) {
            rep.distinct(0x0100_0000 + n as u64);
            if is_unknown || norm(&dbg) != norm(name) {
                rep.violation("option-name-vs-registry", format!("option number {} is {} in the registry but the crate reports {}", n, name, dbg), format!("option number {}", n));
            } else {
                rep.count("options_named_match_registry");
            }
        } else if let Some((_, name)) = OPTIONS_OPTIONAL.iter().find(|(k, _)| *k == n) {
            if !is_unknown && norm(&dbg) != norm(name) {
                rep.violation("option-name-vs-registry", format!("option number {} is {} in the registry but the crate reports {}", n, name, dbg), format!("option number {}", n));
            }
        } else if !is_unknown {
            rep.violation("unassigned-option-aliased", format!("option number {} has no registry entry but the crate reports {}", n, dbg), format!("option number {}", n));
        } else {
            rep.count("options_unknown_as_required");
        }
    }
    for (o, n) in named_options() {
        rep.eval();
        let got = u16::from(o);
        let name = OPTIONS.iter().find(|(k, _)| *k == n).map(|x| x.1).unwrap_or("?");
        if got != n || norm(&format!("{:?}", o)) != norm(name) || CoapOption::from(got) != o {
            rep.violation("option-name-to-number", format!("{:?} -> {} (registry: {} = {})", o, got, name, n), format!("{:?}", o));
        } else {
            rep.count("option_names_checked");
        }
    }

    // ---- content formats: all 16-bit ids and a few beyond
    let extra: [usize; 6] = [65536, 65537, 70000, 1 << 20, u32::MAX as usize, usize::MAX];
    for n in (0..=65535usize).chain(extra.iter().copied()) {
        if !keep(n, n > 65535 || CONTENT_FORMATS.iter().any(|(k, _, _)| *k == n)) {
            continue;
        }
        rep.eval();
        let r = guard(|| ContentFormat::try_from(n).map(|v| (format!("{:?}", v), usize::from(v))));
        let r = match r {
            Ok(x) => x,
            Err(p) => {
                rep.violation(&p.sig(), p.text(), format!("ContentFormat::try_from({})", n));
                continue;
            }
        };
        let row = CONTENT_FORMATS.iter().find(|(k, _, _)| *k == n);
        match (row, r) {
            (Some((_, media, key)), Ok((dbg, back))) => {
                rep.distinct(0x0200_0000 + n as u64);
                if norm(&dbg) != *key {
                    rep.violation("content-format-name-vs-registry", format!("id {} is {} in the registry but the crate reports {}", n, media, dbg), format!("content-format {}", n));
                } else if back != n {
                    rep.violation("content-format-roundtrip", format!("usize::from(try_from({})) = {}", n, back), format!("content-format {}", n));
                } else {
                    rep.count("content_formats_named_match_registry");
                }
            }
            (Some((_, media, _)), Err(_)) => {
                rep.violation("content-format-missing", format!("id {} ({}) is rejected as invalid", n, media), format!("content-format {}", n));
            }
            (None, Ok((dbg, _))) => {
                rep.violation("unassigned-content-format-aliased", format!("id {} is not in the table but the crate reports {}", n, dbg), format!("content-format {}", n));
            }
            (None, Err(_)) => rep.count("content_formats_invalid_as_required"),
        }
    }
    for (v, n) in named_content_formats() {
        rep.eval();
        let got = usize::from(v);
        let key = CONTENT_FORMATS.iter().find(|(k, _, _)| *k == n).map(|x| x.2).unwrap_or("?");
        let back = ContentFormat::try_from(got);
        if got != n || norm(&format!("{:?}", v)) != key || back != Ok(v) {
            rep.violation("content-format-name-to-number", format!("{:?} -> {} (registry {} = {}), back = {:?}", v, got, key, n, back), format!("{:?}", v));
        } else {
            rep.count("content_format_names_checked");
        }
    }

    // name -> number as seen on the wire, whatever named format the message carried before
    {
        let all = named_content_formats();
        for (pi, (prev, _)) in all.iter().enumerate() {
            for (ci, (cf, n)) in all.iter().enumerate() {
                if level == 0 && (pi * 61 + ci) % 53 != 0 {
                    continue;
                }
                rep.eval();
                let res = guard(|| {
                    let mut p = Packet::new();
                    p.set_content_format(*prev);
                    p.set_content_format(*cf);
                    let wire = p.to_bytes().ok().and_then(|b| Packet::from_bytes(&b).ok());
                    wire.and_then(|q| q.get_first_option(CoapOption::ContentFormat).cloned())
                });
                let want: Vec<u8> = {
                    let b = (*n as u64).to_be_bytes();
                    b.iter().copied().skip_while(|x| *x == 0).collect()
                };
                match res {
                    Ok(Some(raw)) if raw == want => rep.count("content_format_name_to_wire_number"),
                    other => rep.violation("content-format-name-to-wire-number", format!("{:?} set after {:?} goes on the wire as {:?}, registry number is {}", cf, prev, other.map_err(|p| p.text()), n), format!("{:?} after {:?}", cf, prev)),
                }
            }
        }
    }

    // ---- codes: all 256 bytes
    for b in 0..=255u8 {
        rep.eval();
        let r = guard(|| {
            let mc = MessageClass::from(b);
            let shown = format!("{}", mc);
            let mut h = Header::new();
            h.set_code(&shown);
            (mc, u8::from(mc), shown, h.code, h.get_code())
        });
        let (mc, back, shown, parsed, shown2) = match r {
            Ok(x) => x,
            Err(p) => {
                rep.violation(&p.sig(), p.text(), format!("code byte {:#04x}", b));
                continue;
            }
        };
        let wit = format!("code byte {:#04x}", b);
        if back != b {
            rep.violation("code-byte-roundtrip", format!("u8::from(MessageClass::from({:#x})) = {:#x} ({:?})", b, back, mc), wit.clone());
        }
        let dotted = format!("{}.{:02}", b >> 5, b & 0x1f);
        if shown != dotted {
            rep.violation("code-display", format!("code {:#x} prints as {} instead of {}", b, shown, dotted), wit.clone());
        }
        if parsed != mc || shown2 != dotted {
            rep.violation("code-parse", format!("set_code({}) gives {:?} / get_code {} (byte {:#x} is {:?})", dotted, parsed, shown2, b, mc), wit.clone());
        }
        let class = b >> 5;
        let detail = b & 0x1f;
        let expect: Option<(&str, &str)> = if b == 0 {
            Some(("empty", ""))
        } else if let Some((_, name)) = METHODS.iter().find(|(k, _)| *k == b) {
            Some(("request", name))
        } else if let Some((_, _, name)) = RESPONSES.iter().find(|(c, d, _)| *c == class && *d == detail) {
            Some(("response", name))
        } else {
            None
        };
        let dbg = format!("{:?}", mc);
        match expect {
            Some(("empty", _)) => {
                if mc != MessageClass::Empty {
                    rep.violation("code-name-vs-registry", format!("0.00 is Empty but the crate reports {}", dbg), wit.clone());
                }
            }
            Some((kind, name)) => {
                rep.distinct(0x0300_0000 + b as u64);
                let ok = match mc {
                    MessageClass::Request(rt) => kind == "request" && norm(&format!("{:?}", rt)) == norm(name),
                    MessageClass::Response(rt) => {
                        let is_err = rt.is_error();
                        if is_err != (b >= 0x80) {
                            rep.violation("is-error", format!("{:?} ({}) is_error() = {}", rt, dotted, is_err), wit.clone());
                        }
                        rep.count("is_error_checked");
                        kind == "response" && norm(&format!("{:?}", rt)) == norm(name)
                    }
                    _ => false,
                };
                if !ok {
                    rep.violation("code-name-vs-registry", format!("{} is {} {} in the registry but the crate reports {}", dotted, kind, name, dbg), wit.clone());
                } else {
                    rep.count("codes_named_match_registry");
                }
            }
            None => {
                if mc != MessageClass::Reserved(b) {
                    rep.violation("unassigned-code-aliased", format!("{} has no registry entry but the crate reports {}", dotted, dbg), wit.clone());
                } else {
                    rep.count("codes_reserved_as_required");
                }
            }
        }
    }
    for (m, b) in named_methods() {
        rep.eval();
        let got = u8::from(MessageClass::Request(m));
        if got != b || MessageClass::from(b) != MessageClass::Request(m) {
            rep.violation("method-name-to-number", format!("{:?} -> {:#x}, registry {:#x}", m, got, b), format!("{:?}", m));
        } else {
            rep.count("method_names_checked");
        }
    }
    for (s, b) in named_statuses() {
        rep.eval();
        let got = u8::from(MessageClass::Response(s));
        if got != b || MessageClass::from(b) != MessageClass::Response(s) {
            rep.violation("status-name-to-number", format!("{:?} -> {:#x}, registry {:#x}", s, got, b), format!("{:?}", s));
        } else {
            rep.count("status_names_checked");
        }
        if s.is_error() != (b >= 0x80) {
            rep.violation("is-error", format!("{:?} ({:#x}) is_error() = {}", s, b, s.is_error()), format!("{:?}", s));
        }
    }

    // ---- header packing: all 256 first bytes through the decoder, and all setter orders
    let types = [MessageType::Confirmable, MessageType::NonConfirmable, MessageType::Acknowledgement, MessageType::Reset];
    for b0 in 0..=255u8 {
        rep.eval();
        let tkl = (b0 & 0x0f) as usize;
        let mut bytes = vec![b0, 0x45, 0xab, 0xcd];
        bytes.extend(std::iter::repeat(0x11).take(tkl.min(8)));
        match guard(|| Packet::from_bytes(&bytes)) {
            Err(p) => rep.violation(&p.sig(), p.text(), crate::rng::hex(&bytes)),
            Ok(Err(_)) => {
                if tkl <= 8 {
                    rep.violation("header-rejected", format!("first byte {:#04x} with {} token bytes rejected", b0, tkl), crate::rng::hex(&bytes));
                }
            }
            Ok(Ok(p)) => {
                if tkl > 8 {
                    rep.violation("header-tkl-accepted", format!("token length {} accepted", tkl), crate::rng::hex(&bytes));
                } else if p.header.get_version() != b0 >> 6 || p.header.get_type() != types[((b0 >> 4) & 3) as usize] || p.header.get_token_length() as usize != tkl || p.header.message_id != 0xabcd {
                    rep.violation("header-unpacking", format!("first byte {:#04x}: version {} type {:?} tkl {} mid {:#x}", b0, p.header.get_version(), p.header.get_type(), p.header.get_token_length(), p.header.message_id), crate::rng::hex(&bytes));
                } else {
                    rep.count("first_bytes_unpacked");
                    rep.distinct(0x0400_0000 + b0 as u64);
                }
            }
        }
    }
    let orders: [[u8; 3]; 6] = [[0, 1, 2], [0, 2, 1], [1, 0, 2], [1, 2, 0], [2, 0, 1], [2, 1, 0]];
    for v in 0..4u8 {
        for (ti, t) in types.iter().enumerate() {
            for tkl in (0..16u8).step_by(if level == 0 { 5 } else { 1 }) {
                for (oi, ord) in orders.iter().enumerate() {
                    if level == 0 && oi % 5 != 0 {
                        continue;
                    }
                    rep.eval();
                    let r = guard(|| {
                        let mut p = Packet::new();
                        // start from a header that has every field set to something else
                        p.header.set_version(3 - v);
                        p.header.set_type(types[(ti + 1) % 4]);
                        p.header.set_token_length(15 - tkl);
                        for step in ord {
                            match step {
                                0 => p.header.set_version(v),
                                1 => p.header.set_type(*t),
                                _ => p.header.set_token_length(tkl),
                            }
                        }
                        let mut out = Vec::with_capacity(4);
                        p.header.to_raw().serialize_into(&mut out).map(|_| out)
                    });
                    let want = v << 6 | (ti as u8) << 4 | tkl;
                    match r {
                        Ok(Ok(out)) if out.len() == 4 && out[0] == want => rep.count("header_packings_checked"),
                        other => rep.violation("header-packing", format!("version {} type {:?} tkl {} order {:?}: {:?}, want first byte {:#04x}", v, t, tkl, ord, other.map(|r| r.map(|o| crate::rng::hex(&o))), want), format!("v={} t={} tkl={}", v, ti, tkl)),
                    }
                }
            }
        }
    }

    // ---- observe actions
    for n in (0..=2000usize).step_by(if level == 0 { 211 } else { 1 }).chain([1usize, 2, 65535, 65536, 1 << 24, usize::MAX]) {
        rep.eval();
        let r = ObserveOption::try_from(n);
        let ok = match (n, &r) {
            (0, Ok(ObserveOption::Register)) => usize::from(ObserveOption::Register) == 0,
            (1, Ok(ObserveOption::Deregister)) => usize::from(ObserveOption::Deregister) == 1,
            (0, _) | (1, _) => false,
            (_, Err(_)) => true,
            _ => false,
        };
        if !ok {
            rep.violation("observe-action", format!("ObserveOption::try_from({}) = {:?}", n, r), format!("observe {}", n));
        } else {
            rep.count("observe_actions_checked");
        }
    }
    // ---- observe action as read from a message: every encoding of the number, leading zero bytes included (RFC 7252 3.2)
    {
        let alpha = [0u8, 1, 2, 0xff];
        for len in 0..=5usize {
            for v in 0..(alpha.len() as u32).pow(len as u32) {
                let mut x = v;
                let raw: Vec<u8> = (0..len)
                    .map(|_| {
                        let b = alpha[(x % 4) as usize];
                        x /= 4;
                        b
                    })
                    .collect();
                // on a GET (RFC 7641) and on a FETCH (RFC 8132 2.4) request alike
                let method = if (v + len as u32) % 2 == 0 { 0x01u8 } else { 0x05 };
                rep.eval();
                let got = guard(|| {
                    let mut p = Packet::new();
                    p.header.code = MessageClass::from(method);
                    p.add_option(CoapOption::Observe, raw.clone());
                    p.add_option(CoapOption::Observe, alloc_vec_one());
                    // whatever else the request carries (a block-wise follow-up, conditions, a path ...)
                    match (v as usize + len) % 5 {
                        0 => p.add_option(CoapOption::Block2, vec![0x16]),
                        1 => {
                            p.add_option(CoapOption::Block2, vec![0x01, 0x02]);
                            p.add_option(CoapOption::Block1, vec![0x0e]);
                        }
                        2 => {
                            p.add_option(CoapOption::UriPath, b"obs".to_vec());
                            p.add_option(CoapOption::ETag, vec![1, 2, 3]);
                            p.add_option(CoapOption::Accept, vec![50]);
                        }
                        3 => p.add_option(CoapOption::NoResponse, vec![0x1a]),
                        _ => {}
                    }
                    let rq = coap_lite::CoapRequest::from_packet(p, 1u8);
                    rq.get_observe_flag()
                });
                let num: Option<u64> = if raw.len() <= 4 { Some(raw.iter().fold(0u64, |a, b| a << 8 | *b as u64)) } else { None };
                let ok = match (&got, num) {
                    (Ok(Some(Ok(ObserveOption::Register))), Some(0)) => true,
                    (Ok(Some(Ok(ObserveOption::Deregister))), Some(1)) => true,
                    (Ok(Some(Err(_))), Some(n)) if n > 1 => true,
                    (Ok(Some(Err(_))), None) => true,
                    _ => false,
                };
                if ok {
                    rep.count("observe_flag_encodings_checked");
                } else {
                    rep.violation("observe-flag-from-message", format!("Observe value {} on a {} request reads as {:?}", crate::rng::hex(&raw), if method == 1 { "GET" } else { "FETCH" }, got.map_err(|p| p.text())), format!("Observe = {} on code {:#04x}", crate::rng::hex(&raw), method));
                }
            }
        }
    }
    rep.sample(|| "CoapOption::from(258) = NoResponse; u16::from(NoResponse) = 258".to_string());
    rep.sample(|| format!("ContentFormat::try_from(11542) = {:?}", ContentFormat::try_from(11542usize)));
    rep.sample(|| format!("MessageClass::from(0x9d) = {:?} prints {}", MessageClass::from(0x9d), MessageClass::from(0x9d)));
    rep.floor("options_named_match_registry", 21);
    rep.floor("content_formats_named_match_registry", CONTENT_FORMATS.len() as u64);
    rep.floor("codes_named_match_registry", 34);
    rep.floor("first_bytes_unpacked", 4 * 4 * 9);
}


fn alloc_vec_one() -> Vec<u8> {
    vec![1]
}
