#!/bin/bash
# seedcheck.sh <worktree-dir> <seed-name> <property> : independent confirmation of a seeded change
# (1) lib tests still pass with it, (2) its demonstration fails with it, (3) passes without it.
# Stores patch.diff, demo.rs, SEED_REPORT.md and a verification log under /verif/seeded/<seed-name>/.
set -u
wt=$1; name=$2; prop=$3
dst=/verif/seeded/$name
mkdir -p $dst
git -C $wt diff -- src > $dst/patch.diff
cp $wt/tests/demo.rs $dst/demo.rs
[ -f $wt/SEED_REPORT.md ] && cp $wt/SEED_REPORT.md $dst/SEED_REPORT.md
v=/tmp/seedv-$name
rm -rf $v; git -C /repo worktree add --detach -q $v HEAD || exit 2
export CARGO_TARGET_DIR=$v/target CARGO_NET_OFFLINE=true
mkdir -p $v/tests; cp $dst/demo.rs $v/tests/demo.rs
log=$dst/verify.log; : > $log
( cd $v && cargo test --offline --test demo 2>&1 | grep -E "^test result|^test .* (ok|FAILED)" ) > $v/orig.txt 2>&1
echo "== original code, demo:" >> $log; cat $v/orig.txt >> $log
( cd $v && git apply $dst/patch.diff ) || { echo "PATCH DOES NOT APPLY" | tee -a $log; }
( cd $v && cargo test --offline --lib 2>&1 | grep -E "^test result" ) > $v/lib.txt 2>&1
echo "== with change, lib tests:" >> $log; cat $v/lib.txt >> $log
( cd $v && cargo test --offline --test demo 2>&1 | grep -E "^test result|^test .* (ok|FAILED)" ) > $v/mut.txt 2>&1
echo "== with change, demo:" >> $log; cat $v/mut.txt >> $log
ok_orig=$(grep -c "test result: ok" $v/orig.txt); ok_lib=$(grep -c "test result: ok. 49 passed; 0 failed" $v/lib.txt); fail_mut=$(grep -c "test result: FAILED" $v/mut.txt)
echo "confirmed: demo passes on original=$ok_orig lib 49 pass with change=$ok_lib demo fails with change=$fail_mut" | tee -a $log
git -C /repo worktree remove --force $v
[ "$ok_orig" = "1" ] && [ "$ok_lib" = "1" ] && [ "$fail_mut" = "1" ]
