#!/usr/bin/env python3
"""Regenerates MANIFEST.json from run.py's PLAN (single source of truth)."""
import json
import os
import subprocess
import sys

ROOT = os.path.dirname(os.path.abspath(__file__))
sys.path.insert(0, ROOT)
import run  # noqa: E402

TEXT = {
    "C01": ("Random boundary-directed messages built under randomised API call orders; every encoding compared byte-for-byte "
            "with an independent RFC 7252 encoder and decoded back; run with overflow checks on and off, no_std, udp, and under "
            "ASan/Miri/memcheck. Exploration is the right level: the message space is unbounded, failures sit on arithmetic "
            "boundaries that the generator targets.",
            "runtime monitor: differential check against reference RFC 7252 encoder + round-trip oracle; sanitizers (Miri, ASan, memcheck)"),
    "C02": ("Every datagram of a large structured corpus (exhaustive short suffixes, swept extension fields, prefixes and "
            "corruptions, random) that the parser accepts is re-encoded and compared with the input byte for byte.",
            "runtime monitor: re-encode identity oracle over generated datagram corpus, injectivity map"),
    "C03": ("Every datagram of the corpus is classified by an independent three-valued RFC parser and the crate's answer compared; "
            "panics/aborts captured per call and per process in builds with and without overflow checks, plus ASan and Miri "
            "for out-of-bounds reads.",
            "runtime monitor: panic capture + three-valued reference parser oracle; ASan/Miri"),
    "C04": ("Exact wire length from the reference encoder decides success/failure for limits W-1/W/W+1 and the default "
            "limit, with messages steered onto the limit through payload and through options; the same workload runs under "
            "Miri, ASan (debug+release), valgrind memcheck and std ub_checks for the unsafe copies.",
            "runtime monitor: reference length oracle at limit boundaries; Miri + AddressSanitizer + valgrind memcheck + ub_checks on the unsafe copies"),
    "C05": ("Finite spaces enumerated completely against hand-transcribed registry tables in both directions, plus every named "
            "variant by name; exhaustive over the stated finite sets.",
            "runtime monitor: exhaustive differential check against independently transcribed registry tables"),
    "C06": ("Exhaustive 8/16-bit and short byte-string sweeps plus boundary and random 32/64-bit values against an arithmetic oracle; "
            "typed accessors compared with raw lists; Miri on a sample.",
            "runtime monitor: arithmetic oracle (minimal big-endian) over exhaustive + boundary + random inputs"),
    "C07": ("The full product of type x version x token length x message id (sampled in quick, complete in thorough) is pushed through "
            "response preparation and error rendering and every correlation field is compared with the request.",
            "runtime monitor: correlation oracle over the enumerated request space, error-shape enumeration"),
    "C08": ("An in-order Block2 client drives the real handler through encoded datagrams; reassembled bytes, block arithmetic, option "
            "echo, single application consultation and cache release are asserted for thousands of body/budget/strategy combinations.",
            "runtime monitor: block-wise test client over encoded datagrams, reassembly oracle = application body"),
    "C09": ("A Block1 client uploads bodies with duplicated blocks and abandoned earlier uploads; acknowledgements and the body the "
            "application finally sees are compared with what was sent; the 4.13 path is checked on both sides of the budget band.",
            "runtime monitor: upload histories (duplicates, abandoned prefixes) with delivered-body oracle"),
    "C10": ("Every reply the handler produces is measured as encoded bytes against the configured budget across budgets placed on "
            "every power-of-two threshold; the chosen block size is compared with the client's request.",
            "runtime monitor: encoded-length and block-size-choice oracle at budget thresholds"),
    "C11": ("Hostile request sequences and application replies under budgets from 0 up; both entry points are wrapped in panic capture, "
            "errors are rendered, and the buffered-upload length is observed before and after every call.",
            "runtime monitor: panic capture + error renderability + buffer-growth bound (hook + delivered body) under fuzzed histories; Miri/ASan smoke"),
    "C12": ("Every interleaving of 2-3 scripted transfers (whole exchanges and half exchanges) is executed and each transfer's transcript "
            "compared with its solo run; unique mid/token per request expose stale correlation fields.",
            "runtime monitor: exhaustive schedule enumeration with solo-run transcript oracle (non-interference)"),
    "C13": ("Exhaustive encode/decode over the whole (num, more, szx) space and all short byte strings, constructor swept over sizes and "
            "numbers, against an arithmetic oracle.",
            "runtime monitor: arithmetic oracle over exhaustive block-value space"),
    "C14": ("Bounded-exhaustive operation histories plus long random ones are replayed against the real Subject and a sequential model of "
            "the registry, compared after every step (observer lists, order, tokens, isolation, no creation by rounds).",
            "runtime monitor: step-by-step comparison with sequential reference model over exhaustive bounded histories"),
    "C15": ("The same histories with the full accounting model (counts and pending ids through hooks, eviction exactly past the limit, "
            "sequence +1), directed long runs at limits up to 255, and the notification builder.",
            "runtime monitor: sequential reference model incl. private counters (hooks / replay-and-probe), directed long histories"),
    "C16": ("Writer output for exhaustive hostile values and random documents is parsed back and compared link by link, key by key, "
            "value by value.",
            "runtime monitor: write-then-parse round-trip oracle"),
    "C17": ("All short strings over the structural alphabet plus random and prefix inputs are fed to the parser; termination, substring "
            "and order of yields, silence after error and agreement of both unquoting paths are asserted; Miri and ASan watch the "
            "pointer arithmetic.",
            "runtime monitor: totality + pointer-range + to_cow/to_string agreement over exhaustive short strings; Miri, ASan"),
    "C18": ("Per document every sink call index is failed once and persistently, with and without newlines - the fault space of each "
            "document is enumerated completely.",
            "fault injection: complete enumeration of sink failure points per document with prefix/err oracle"),
    "C19": ("Every named value through setter/getter/raw/wire from several prior states, exhaustive short paths, raw Observe bytes, and "
            "both coap-message trait versions against raw state.",
            "runtime monitor: accessor-vs-raw-state oracle over exhaustive names and short paths, trait-view differential"),
    "C20": ("Histories with time run under a frozen, injected clock so that both 'still alive' and 'must be expired' are decided "
            "deterministically; physical reclamation is observed through endpoint-instance and large-allocation accounting; "
            "real-time runs assert the expired direction only.",
            "runtime monitor: delay injection via interposed clock_gettime, counting endpoint + counting allocator for reclamation"),
}

NOTE = ("Trusted: the harness oracles (reference codec / models / registry tables in /verif/harness/src, written from the RFCs and the "
        "property text), rustc/cargo, Miri/ASan/valgrind where used. Verdict = held on the executions observed; coverage floors "
        "turn too-thin runs into 'inconclusive' (exit 2), never into a pass or an alarm.")


def main():
    props = [json.loads(l) for l in open(os.path.join(ROOT, "properties.jsonl"))]
    hooks_commits = []
    hp = os.path.join(ROOT, "hook_commits.txt")
    if os.path.exists(hp):
        hooks_commits = [l.split()[0] for l in open(hp) if l.strip()]
    checks = []
    na = []
    for p in props:
        pid = p["id"]
        if pid in run.PLAN and pid in TEXT:
            plan = run.PLAN[pid]
            checks.append(dict(
                property_id=pid,
                quick_cmd="./run.py check %s --tier quick" % pid,
                thorough_cmd="./run.py check %s --tier thorough" % pid,
                evidence_file="/verif/evidence/%s.json" % pid,
                replay_cmd_template="./run.py replay {path}",
                engine="clv",
                level_claimed=dict(category=plan["level"], text=TEXT[pid][0], design_ref=plan["design"]),
                level_note=NOTE,
                technique=TEXT[pid][1],
            ))
        else:
            na.append(dict(property_id=pid, reason="monitor not built yet (work in progress; see DESIGN.md section 3)"))
    m = dict(
        version=1,
        setup_cmd="./run.py setup",
        hooks=dict(
            guard="--cfg coap_lite_verif",
            enable="RUSTFLAGS='--cfg coap_lite_verif' (set by run.py for every lane); harness/build.rs detects which hooks exist",
            baseline_off_cmd="cd /repo && cargo test --workspace --no-fail-fast --offline",
            source_commits=hooks_commits,
            add_only=True,
        ),
        engines=[dict(name="clv", path="/verif/harness", serves_properties=[c["property_id"] for c in checks],
                      kind_free_text="Rust workload generators + online monitors (reference codec, sequential models, "
                                     "fault-injecting sink, virtual clock, counting allocator/endpoint) linked against /repo; "
                                     "run.py shards them over dbg/rel/udp/no_std builds and under Miri, ASan and valgrind")],
        checks=checks,
        notes="See DESIGN.md. run.py exit codes: 0 held, 1 violation (VIOLATION line), 2 inconclusive.",
        not_applicable=na,
    )
    with open(os.path.join(ROOT, "MANIFEST.json"), "w") as f:
        json.dump(m, f, indent=1)
    # validate
    try:
        import jsonschema
        jsonschema.validate(m, json.load(open("/root/.vp/MANIFEST.schema.json")))
        print("MANIFEST.json valid; %d checks, %d not_applicable" % (len(checks), len(na)))
    except ImportError:
        r = subprocess.run(["python3-vt", "-c", "import json,jsonschema;jsonschema.validate(json.load(open('%s/MANIFEST.json')),json.load(open('/root/.vp/MANIFEST.schema.json')));print('valid')" % ROOT])
        return r.returncode
    return 0


if __name__ == "__main__":
    sys.exit(main())
