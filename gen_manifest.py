#!/usr/bin/env python3
"""Regenerates MANIFEST.json from run.py's PLAN (single source of truth)."""
import json
import os
import subprocess
import sys

ROOT = os.path.dirname(os.path.abspath(__file__))
sys.path.insert(0, ROOT)
import run  # noqa: E402

TEXT = {
    "C01": ("Random boundary-directed messages built under randomised API call orders; every encoding compared byte-for-byte "
            "with an independent RFC 7252 encoder and decoded back; run with overflow checks on and off, no_std, udp, and under "
            "ASan/Miri/memcheck. Exploration is the right level: the message space is unbounded, failures sit on arithmetic "
            "boundaries that the generator targets.",
            "runtime monitor: differential check against reference RFC 7252 encoder + round-trip oracle; sanitizers (Miri, ASan, memcheck)"),
    "C02": ("Every datagram of a large structured corpus (exhaustive short suffixes, swept extension fields, prefixes and "
            "corruptions, random) that the parser accepts is re-encoded and compared with the input byte for byte.",
            "runtime monitor: re-encode identity oracle over generated datagram corpus, injectivity map"),
    "C03": ("Every datagram of the corpus is classified by an independent three-valued RFC parser and the crate's answer compared; "
            "panics/aborts captured per call and per process in builds with and without overflow checks, plus ASan and Miri "
            "for out-of-bounds reads.",
            "runtime monitor: panic capture + three-valued reference parser oracle; ASan/Miri"),
    "C04": ("Exact wire length from the reference encoder decides success/failure for limits W-1/W/W+1 and the default "
            "limit, with messages steered onto the limit through payload and through options; the same workload runs under "
            "Miri, ASan (debug+release), valgrind memcheck and std ub_checks for the unsafe copies.",
            "runtime monitor: reference length oracle at limit boundaries; Miri + AddressSanitizer + valgrind memcheck + ub_checks on the unsafe copies"),
}

NOTE = ("Trusted: the harness oracles (reference codec / models / registry tables in /verif/harness/src, written from the RFCs and the "
        "property text), rustc/cargo, Miri/ASan/valgrind where used. Verdict = held on the executions observed; coverage floors "
        "turn too-thin runs into 'inconclusive' (exit 2), never into a pass or an alarm.")


def main():
    props = [json.loads(l) for l in open(os.path.join(ROOT, "properties.jsonl"))]
    hooks_commits = []
    hp = os.path.join(ROOT, "hook_commits.txt")
    if os.path.exists(hp):
        hooks_commits = [l.split()[0] for l in open(hp) if l.strip()]
    checks = []
    na = []
    for p in props:
        pid = p["id"]
        if pid in run.PLAN and pid in TEXT:
            plan = run.PLAN[pid]
            checks.append(dict(
                property_id=pid,
                quick_cmd="./run.py check %s --tier quick" % pid,
                thorough_cmd="./run.py check %s --tier thorough" % pid,
                evidence_file="/verif/evidence/%s.json" % pid,
                replay_cmd_template="./run.py replay {path}",
                engine="clv",
                level_claimed=dict(category=plan["level"], text=TEXT[pid][0], design_ref=plan["design"]),
                level_note=NOTE,
                technique=TEXT[pid][1],
            ))
        else:
            na.append(dict(property_id=pid, reason="monitor not built yet (work in progress; see DESIGN.md section 3)"))
    m = dict(
        version=1,
        setup_cmd="./run.py setup",
        hooks=dict(
            guard="--cfg coap_lite_verif",
            enable="RUSTFLAGS='--cfg coap_lite_verif' (set by run.py for every lane); harness/build.rs detects which hooks exist",
            baseline_off_cmd="cd /repo && cargo test --workspace --no-fail-fast --offline",
            source_commits=hooks_commits,
            add_only=True,
        ),
        engines=[dict(name="clv", path="/verif/harness", serves_properties=[c["property_id"] for c in checks],
                      kind_free_text="Rust workload generators + online monitors (reference codec, sequential models, "
                                     "fault-injecting sink, virtual clock, counting allocator/endpoint) linked against /repo; "
                                     "run.py shards them over dbg/rel/udp/no_std builds and under Miri, ASan and valgrind")],
        checks=checks,
        notes="See DESIGN.md. run.py exit codes: 0 held, 1 violation (VIOLATION line), 2 inconclusive.",
        not_applicable=na,
    )
    with open(os.path.join(ROOT, "MANIFEST.json"), "w") as f:
        json.dump(m, f, indent=1)
    # validate
    try:
        import jsonschema
        jsonschema.validate(m, json.load(open("/root/.vp/MANIFEST.schema.json")))
        print("MANIFEST.json valid; %d checks, %d not_applicable" % (len(checks), len(na)))
    except ImportError:
        r = subprocess.run(["python3-vt", "-c", "import json,jsonschema;jsonschema.validate(json.load(open('%s/MANIFEST.json')),json.load(open('/root/.vp/MANIFEST.schema.json')));print('valid')" % ROOT])
        return r.returncode
    return 0


if __name__ == "__main__":
    sys.exit(main())
